#!/bin/bash
# Validates MANIFEST.json and every evidence file against the schemas in /root/.vp (python3-vt has jsonschema).
python3-vt - <<'P'
import json,glob,jsonschema,sys
ok=True
try:
    jsonschema.validate(json.load(open('/verif/MANIFEST.json')), json.load(open('/root/.vp/MANIFEST.schema.json'))); print('MANIFEST ok')
except Exception as e:
    ok=False; print('MANIFEST INVALID', str(e)[:300])
es=json.load(open('/root/.vp/EVIDENCE.schema.json'))
for f in sorted(glob.glob('/verif/evidence/C*.json')):
    try:
        d=json.load(open(f)); jsonschema.validate(d, es)
        c=d['coverage']; print(f.split('/')[-1], d['tier'], 'ok', 'exhaustive=%s'%c.get('exhaustive'), 'evals=%s'%c.get('evaluations'), 'viol=%s'%len(d.get('violations',[])) if isinstance(d.get('violations'),list) else d.get('violations'), 'wall=%.1f'%d['wall_s'])
    except Exception as e:
        ok=False; print(f, 'INVALID', str(e)[:300])
sys.exit(0 if ok else 1)
P
