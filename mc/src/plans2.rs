//! History plans for C05, C06, C09, C10, C11, C12, C13: symbol-sequence enumerations.

use crate::driver::Cfg;
use crate::engine::Plan;
use crate::histx::{add_io_reverse, add_pool_poison, add_quiet, enum_commit_histories, sort_by_bound};
use serde_json::{json, Value};

fn w(k: u64, s: u64) -> Value {
    json!([k, "w", s])
}
fn del(k: u64) -> Value {
    json!([k, "d"])
}
fn c(items: Vec<Value>) -> Value {
    json!({"c": items})
}

fn case(seed: &str, universe: Vec<&str>, cfg: &Cfg, audit: &str, ops: Vec<Value>, bound: usize, final_reopen: bool) -> Value {
    json!({"bound": bound, "seed": seed, "universe": universe, "cfg": cfg.to_json(), "audit": audit, "ops": ops, "final_reopen": final_reopen})
}

/// All sequences of length ≤ `maxlen` over `symbols` (each symbol may expand to several ops).
fn sequences(symbols: &[Vec<Value>], maxlen: usize) -> Vec<(Vec<Value>, usize)> {
    let mut out = vec![(vec![], 0usize)];
    let mut frontier: Vec<Vec<usize>> = vec![vec![]];
    for _ in 0..maxlen {
        let mut next = vec![];
        for seq in &frontier {
            for s in 0..symbols.len() {
                let mut n = seq.clone();
                n.push(s);
                let ops: Vec<Value> = n.iter().flat_map(|i| symbols[*i].iter().cloned()).collect();
                out.push((ops, n.len()));
                next.push(n);
            }
        }
        frontier = next;
    }
    out
}

fn rb_cfg(log_len: u32, seg: u64) -> Cfg {
    let mut c = Cfg::default();
    c.buckets = 256;
    c.rollback = true;
    c.log_len = log_len;
    c.seg_size = seg;
    c
}

// ---------------------------------------------------------------------------------------------

pub fn plan_c09(thorough: bool) -> Plan {
    // symbols: four fixed commits, an overlay-chain commit, rollbacks, reopens
    let symbols = |ovid: u64| -> Vec<Vec<Value>> {
        vec![
            vec![c(vec![w(0, 1), w(3, 0)])],
            vec![c(vec![w(1, 1333), del(0)])],
            vec![c(vec![w(2, 8192), w(0, 2)])],
            vec![c(vec![del(1), del(2), w(3, 5)])],
            vec![c(vec![])],
            vec![json!({"ov": {"id": ovid, "on": [], "b": [w(3, 1), del(0)]}}), json!({"ovc": ovid})],
            vec![json!({"rb": 1})],
            vec![json!({"rb": 2})],
            vec![json!({"rb": 3})],
            vec![json!({"reopen": {}})],
        ]
    };
    let mut cases = vec![];
    let cfgs: Vec<(u32, u64, usize)> = if thorough {
        let mut v = vec![];
        for ll in [0u32, 1, 2, 3] {
            for seg in [4096u64, 8192, 0] {
                // length 5 (111 111 sequences over the 10 symbols) for one configuration, 4 elsewhere
                // (plan size: every worker process holds the whole plan in memory)
                let diag = matches!((ll, seg), (2, 4096));
                v.push((ll, seg, if diag { 5 } else { 4 }));
            }
        }
        v
    } else {
        vec![(0, 4096, 3), (1, 4096, 3), (2, 4096, 4), (2, 8192, 3), (3, 0, 3)]
    };
    for (ll, seg, maxlen) in cfgs {
        let cfg = rb_cfg(ll, seg);
        for (ops, n) in sequences(&symbols(0), maxlen) {
            // overlay ids must be unique per occurrence
            let mut ops = ops;
            let mut next_id = 0u64;
            for i in 0..ops.len() {
                if ops[i].get("ov").is_some() {
                    ops[i]["ov"]["id"] = json!(next_id);
                    if i + 1 < ops.len() && ops[i + 1].get("ovc").is_some() {
                        ops[i + 1]["ovc"] = json!(next_id);
                    }
                    next_id += 1;
                }
            }
            cases.push(case("empty", vec!["U4"], &cfg, "noproof", ops, n, true));
        }
        // reopen with a different configured log length at every position of the short ones
        if thorough || ll == 2 {
            for (ops, n) in sequences(&symbols(0)[..7].to_vec(), 3) {
                for (pos, other) in (0..=ops.len()).flat_map(|p| if ll == 2 { vec![(p, 1u32), (p, 0)] } else { vec![(p, if ll == 1 { 3 } else { 1 })] }) {
                    let mut o = ops.clone();
                    o.insert(pos, json!({"reopen": {"log_len": other}}));
                    let mut next_id = 0u64;
                    for i in 0..o.len() {
                        if o[i].get("ov").is_some() {
                            o[i]["ov"]["id"] = json!(next_id);
                            if i + 1 < o.len() && o[i + 1].get("ovc").is_some() {
                                o[i + 1]["ovc"] = json!(next_id);
                            }
                            next_id += 1;
                        }
                    }
                    // an overlay split from its commit by the reopen is meaningless: skip
                    if pos > 0 && pos < o.len() - 0 && o.get(pos - 1).map_or(false, |x| x.get("ov").is_some()) {
                        continue;
                    }
                    cases.push(case("empty", vec!["U4"], &cfg, "noproof", o, n + 1, true));
                }
            }
        }
    }
    // pruning, then a reopen, then rolling back everything that is still retained (and one less):
    // the start of the live range read back from the manifest lags the pruned start by one record
    for ll in [1u32, 2, 3] {
        for seg in [4096u64, 8192, 0] {
            let cfg = rb_cfg(ll, seg);
            for extra in [1usize, 2] {
                for empty in [false, true] {
                    for back in [ll as u64, (ll as u64).saturating_sub(1).max(1)] {
                        let mut ops: Vec<Value> = (0..ll as usize + extra).map(|i| if empty { c(vec![]) } else { c(vec![w((i % 4) as u64, 1 + i as u64)]) }).collect();
                        ops.push(json!({"reopen": {}}));
                        ops.push(json!({"rb": back}));
                        ops.push(c(vec![w(3, 9)]));
                        ops.push(json!({"rb": 1}));
                        cases.push(case("empty", vec!["U4"], &cfg, "noproof", ops, 4, true));
                    }
                }
            }
        }
    }
    // large prior values on a cold store: blind overwrites / deletes of values with 16 and 18
    // overflow pages (more than the 15 page numbers an overflow cell holds) right after a reopen
    // that reads nothing back, so the reverse-delta worker has to fetch the prior value through
    // an uncached leaf
    {
        let big = vec![
            vec![c(vec![w(0, 70000), w(1, 1), w(2, 61381)])],
            vec![c(vec![w(0, 5)])],
            vec![c(vec![del(0), del(2)])],
            vec![c(vec![w(2, 70000), w(3, 1333)])],
            vec![json!({"rb": 1})],
            vec![json!({"rb": 2})],
            vec![json!({"reopen": {"cold": true}})],
        ];
        let cfg = rb_cfg(3, 0);
        for (ops, n) in sequences(&big, if thorough { 5 } else { 4 }) {
            // only sequences that contain a cold reopen are new here
            if ops.iter().any(|o| o.get("reopen").is_some()) {
                cases.push(case("empty", vec!["U4"], &cfg, "noproof", ops, n, true));
            }
        }
    }
    // very large prior values (5 MiB and 20 MiB: thousands of overflow pages, a rollback record of
    // the same size): blind overwrite / read-then-delete, then rollbacks on the same handle and after
    // a reopen (the record is decoded again from the log)
    for size in [5_300_000u64, 20_971_520] {
        let cfg = rb_cfg(3, 0);
        for tail in [vec![json!({"rb": 1})], vec![json!({"reopen": {}}), json!({"rb": 1})], vec![json!({"reopen": {"cold": true}}), json!({"rb": 2})], vec![json!({"rb": 1}), json!({"reopen": {}}), json!({"rb": 1})]] {
            for second in [c(vec![w(0, 1)]), c(vec![json!([0, "rd"])])] {
                let mut ops = vec![c(vec![w(0, size), w(1, 3)]), second.clone()];
                ops.extend(tail.iter().cloned());
                cases.push(case("empty", vec!["U4"], &cfg, "noproof", ops, 4, true));
            }
        }
    }
    // explicit overlay chains: an ancestor deletes / rewrites a key that exists on disk and a
    // descendant writes it blindly or after reading; both committed; rolled back step by step
    for (a, b) in [
        (vec![del(0)], vec![w(0, 7)]),
        (vec![del(0)], vec![json!([0, "rw", 7])]),
        (vec![w(0, 1333)], vec![w(0, 7), del(1)]),
        (vec![del(0), del(1)], vec![w(1, 0)]),
        (vec![w(2, 70000)], vec![del(2), w(0, 0)]),
    ] {
        for tail in [vec![json!({"rb": 1}), json!({"rb": 1})], vec![json!({"rb": 2})], vec![json!({"reopen": {}}), json!({"rb": 1}), json!({"rb": 1})]] {
            let cfg = rb_cfg(3, 0);
            let mut ops = vec![
                c(vec![w(0, 5), w(1, 6)]),
                json!({"ov": {"id": 0, "on": [], "b": a}}),
                json!({"ov": {"id": 1, "on": [0], "b": b}}),
                json!({"ovc": 0}),
                json!({"ovc": 1}),
            ];
            ops.extend(tail);
            cases.push(case("empty", vec!["U4"], &cfg, "noproof", ops, 4, true));
        }
    }
    add_quiet(&mut cases, if thorough { 1 } else { 5 });
    add_io_reverse(&mut cases, if thorough { 5 } else { 15 });
    add_pool_poison(&mut cases, if thorough { 6 } else { 25 }, 0xA5);
    cases.extend(writeless_overlay_family());
    sort_by_bound(&mut cases);
    let mut p = Plan::new(
        cases,
        "histx: every sequence of ≤L symbols over {4 fixed commit batches (1 B, 1333 B, 8 KiB values, deletes), the empty commit, commit of an overlay, rollback(1), rollback(2), rollback(3), reopen} for max_rollback_log_len ∈ {0,1,2,3} × rollback segment size ∈ {4 KiB (one record per segment), 8 KiB, 64 MiB}, plus a reopen with a different log length at every position; plus every sequence of ≤4 (thorough 5) symbols over {write 70000 B + 61381 B values (18 and 16 overflow pages), blind overwrite, blind delete, rewrite large, rollback(1), rollback(2), COLD reopen = a reopen after which nothing is read back} that contains a cold reopen; plus 5 MiB and 20 MiB prior values (blind overwrite / read-then-delete, rollbacks on the same handle and after warm and cold reopens: the record is decoded again from the log); plus 'quiet' copies (no reads between the operations, one audit at the end) of histories that reopen; plus explicit two-overlay chains in which the ancestor deletes/rewrites an on-disk key and the descendant writes it (blind and read-then-write, empty values, overflow values), committed in order and rolled back one by one / at once / after a reopen; plus every sequence of ≤4 symbols over {two writing commits, an EMPTY overlay committed, a READ-ONLY overlay committed, a read-only overlay on a writing overlay (both committed), rollback(1), rollback(2)} — an overlay that writes nothing is still one commit for rollback; oracle: rollback(n) with n ≤ retained commits succeeds and values/root/seqn equal the model's state n commits back; a request beyond what exists fails, changes nothing and does not poison; between the two the store may either refuse or be exactly right (it legitimately retains more than configured across a reopen); every history ends with a reopen and audit (the store never becomes unopenable). bound = sequence length.",
    );
    p.budget_s = if thorough { 1700 } else { 55 };
    p
}

// ---------------------------------------------------------------------------------------------

pub fn reopen_menu() -> Vec<Value> {
    vec![
        json!({}),
        json!({"cc": 3, "warm_up": true}),
        json!({"page_cache": 1, "leaf_cache": 1, "upper_levels": 0}),
        json!({"prepopulate": true, "upper_levels": 3}),
        json!({"io_workers": 3}),
        json!({"io_workers": 2, "io_reverse": true}),
        json!({"buckets": 1000, "seed": 99}),
        // same configuration, but nothing is read back after the reopen: the next operation
        // finds every cache empty
        json!({"cold": true}),
    ]
}

pub fn plan_c10(thorough: bool) -> Plan {
    let mut cases = vec![];
    let menu = reopen_menu();
    // (a) structural histories with a reopen under every configuration at every position
    let acts: Vec<Value> = vec![json!(["w", 1]), json!(["w", 1333]), json!(["d"]), json!(["w", 70000])];
    let mk = |seed: &'static str, uni: Vec<&'static str>, cfg: Cfg| move |ops: Vec<Value>, b: usize| case(seed, uni.clone(), &cfg, "all", ops, b, false);
    let mut base = vec![];
    let mut cfg = Cfg::default();
    cfg.buckets = 64;
    cfg.rollback = true;
    cfg.log_len = 3;
    base.extend(enum_commit_histories(2, 4, if thorough { 2 } else { 1 }, &acts, &mk("empty", vec!["U4"], cfg.clone())));
    base.extend(enum_commit_histories(2, 4, if thorough { 2 } else { 1 }, &acts, &mk("leaf", vec!["seed:0,2,5", "CL0:0-1"], cfg.clone())));
    base.extend(enum_commit_histories(2, 4, if thorough { 2 } else { 1 }, &acts[..3].to_vec(), &mk("cl12x20", vec!["CL12:18-22"], cfg.clone())));
    base.extend(enum_commit_histories(2, 3, 1, &acts[..3].to_vec(), &mk("cl18x21", vec!["CL18:19-22"], cfg.clone())));
    // empty values and their overwrite (the rollback log must keep 'empty' apart from 'absent')
    base.push(case("empty", vec!["U4"], &cfg, "all", vec![c(vec![w(0, 0), w(1, 1)]), c(vec![w(0, 3), del(1)])], 2, false));
    base.push(case("empty", vec!["U4"], &cfg, "all", vec![c(vec![w(0, 0)]), c(vec![del(0)])], 2, false));
    // delete down to one key and to zero keys, then reopen
    base.push(case("empty", vec!["U4"], &cfg, "all", vec![c(vec![w(0, 1), w(1, 1)]), c(vec![del(0)])], 2, false));
    base.push(case("empty", vec!["U4"], &cfg, "all", vec![c(vec![w(0, 70000)]), c(vec![del(0)])], 2, false));
    base.push(case("empty", vec!["U4"], &cfg, "all", vec![c(vec![w(0, 70000), w(1, 1)]), c(vec![del(1)])], 2, false));
    for cse in &base {
        let ops = cse["ops"].as_array().unwrap();
        for (mi, m) in menu.iter().enumerate() {
            if !thorough && mi >= 3 && cse["bound"].as_u64().unwrap() == 0 {
                continue;
            }
            for pos in 0..=ops.len() {
                let mut o = ops.clone();
                o.insert(pos, json!({"reopen": m}));
                // follow-up: one more commit and a rollback after the reopen
                o.push(c(vec![w(0, 5), del(1)]));
                o.push(json!({"rb": 1}));
                o.push(json!({"rb": 1}));
                let mut nc = cse.clone();
                nc["ops"] = Value::Array(o);
                nc["bound"] = json!(cse["bound"].as_u64().unwrap() + 1);
                nc["final_reopen"] = json!(true);
                cases.push(nc);
            }
        }
    }
    // (b) reopen-commit-reopen with different options passed at each open (must be ignored)
    for m1 in &menu {
        for m2 in &menu {
            cases.push(case(
                "cl12x20",
                vec!["CL12:18-22"],
                &cfg,
                "all",
                vec![json!({"reopen": m1}), c(vec![w(0, 1), del(1)]), json!({"reopen": m2}), c(vec![w(1, 2)]), json!({"rb": 1})],
                3,
                true,
            ));
        }
    }
    // (c) a free list that spans two pages across reopens: deleting the 5 MiB value of seed `ovf`
    // releases 1280 value pages (a free-list page holds 1022); reopen under every menu entry, two
    // commits that allocate from the reloaded list with a reopen in between; decoded page
    // accounting (no page used twice, nothing leaked) after every step
    for m1 in &menu {
        // (third variant: the first commit after the reopen needs MORE pages than the reloaded
        // list holds — 1600 against 1280 —, so the list runs dry inside one sync and the rest
        // comes from the bump; only for the first three menu entries in the quick tier)
        for (mi, big_first) in [(0usize, 1u8), (0, 0), (0, 2)].into_iter().map(|(_, b)| (menu.iter().position(|x| x == m1).unwrap_or(0), b)) {
            if big_first == 2 && !thorough && mi >= 3 {
                continue;
            }
            let mut cfg2 = cfg.clone();
            cfg2.buckets = 256;
            let first = match big_first {
                1 => vec![w(1, 70000), w(2, 70000)],
                0 => vec![w(1, 1300), w(2, 5000)],
                _ => vec![w(1, 6_600_000)],
            };
            let mut cse = case(
                "ovf",
                vec!["seed:0", "CL0:0-5"],
                &cfg2,
                "all",
                vec![c(vec![del(0)]), json!({"reopen": m1}), c(first), json!({"reopen": {}}), c(vec![w(3, 70000), w(4, 61381), del(1)]), json!({"reopen": m1}), c(vec![w(5, 70000)]), json!({"rb": 1})],
                3,
                true,
            );
            cse["image"] = json!("c19");
            cases.push(cse);
        }
    }
    sort_by_bound(&mut cases);
    let mut p = Plan::new(
        cases,
        "histx: structural histories (empty / leaf / 20- and 21-key merkle clusters / overflow values / delete-to-one / delete-to-zero, rollback on) with a close + reopen inserted at EVERY position under every entry of a configuration menu {same, 3 workers + warm-up, minimum caches + no pinned levels, prepopulate + 3 pinned levels, 3 I/O workers, 2 I/O workers on the adversarial device (completions of a burst delivered newest first), different hashtable_buckets and seed passed at reopen, same options but cold (nothing read back after the reopen)}, followed by a commit and a rollback, and all ordered pairs of menu entries in reopen-commit-reopen-commit-rollback; and a two-page free list (1280 pages released by deleting a 5 MiB value) carried across reopens under every menu entry, with commits allocating from it in between (a few pages; ≈ 36 pages; more pages than the list holds, so that it runs dry inside one sync) and the decoded page accounting checked after every step; oracle: after every open root, every value (direct and through a session), a verifying truthful proof for every universe key, sync_seqn equal the model's, hash-table occupancy and capacity equal those before the close, and all later operations audit as if never closed.",
    );
    p.budget_s = if thorough { 1700 } else { 55 };
    p
}

// ---------------------------------------------------------------------------------------------
// C11 / C12: stateful enumeration over overlay trees and prepared changesets

#[derive(Clone)]
struct OvState {
    // per overlay: parent, status 0 live / 1 committed / 2 dropped
    ovs: Vec<(Option<usize>, u8)>,
    prepared: Vec<bool>, // consumed?
    last_commit_ov: Option<usize>,
}

fn live_chain(st: &OvState, p: usize) -> Vec<usize> {
    // chain from p upwards through live ancestors (stops at a committed/dropped one)
    let mut v = vec![p];
    let mut cur = st.ovs[p].0;
    while let Some(a) = cur {
        if st.ovs[a].1 != 0 {
            break;
        }
        v.push(a);
        cur = st.ovs[a].0;
    }
    v
}

fn gen_overlay(st: &OvState, depth: usize, maxdepth: usize, max_ov: usize, batches: &[Vec<Value>], with_bad_chains: bool, with_prepared: bool, with_rb: bool, cur: &mut Vec<Value>, out: &mut Vec<(Vec<Value>, usize)>) {
    out.push((cur.clone(), depth));
    if depth == maxdepth {
        return;
    }
    let live: Vec<usize> = (0..st.ovs.len()).filter(|i| st.ovs[*i].1 == 0).collect();
    // new overlay on: no parent, or any live overlay (with its live ancestor chain)
    if st.ovs.len() < max_ov {
        let mut parents: Vec<Option<usize>> = vec![None];
        parents.extend(live.iter().map(|i| Some(*i)));
        for p in parents {
            for (bi, b) in batches.iter().enumerate() {
                if bi > 0 && depth + 1 < maxdepth && st.ovs.len() >= 2 {
                    // bound the fan-out: the second batch only for the first two overlays
                    continue;
                }
                let id = st.ovs.len();
                let on: Vec<usize> = p.map(|p| live_chain(st, p)).unwrap_or_default();
                let mut ns = st.clone();
                ns.ovs.push((p, 0));
                cur.push(json!({"ov": {"id": id, "on": on, "b": b}}));
                gen_overlay(&ns, depth + 1, maxdepth, max_ov, batches, with_bad_chains, with_prepared, with_rb, cur, out);
                cur.pop();
            }
        }
        if with_bad_chains && live.len() >= 1 {
            // sessions on lists that are not complete ancestor chains: a child without its live
            // parent, a pair in the wrong order, unrelated overlays
            let mut bad: Vec<Vec<usize>> = vec![];
            for &a in &live {
                let full = live_chain(st, a);
                if full.len() >= 2 {
                    bad.push(vec![a]); // incomplete: parent missing
                    let mut rev = full.clone();
                    rev.reverse();
                    bad.push(rev); // wrong order
                }
                for &b in &live {
                    if a != b && st.ovs[a].0 != Some(b) {
                        bad.push(vec![a, b]); // b is not a's parent
                    }
                }
            }
            bad.sort();
            bad.dedup();
            for on in bad.into_iter().take(4) {
                let id = st.ovs.len();
                // the executor decides (from its model) whether the list must be refused; if it
                // is accepted legitimately the overlay is created with parent = first element
                let mut ns = st.clone();
                ns.ovs.push((on.first().cloned(), 2)); // treat as not usable further
                cur.push(json!({"ov": {"id": id, "on": on, "b": batches[0]}}));
                gen_overlay(&ns, depth + 1, maxdepth, max_ov, batches, false, with_prepared, with_rb, cur, out);
                cur.pop();
            }
        }
    }
    for &i in &live {
        for opn in ["ovc", "ovcn"] {
            if opn == "ovcn" && depth + 1 < maxdepth {
                continue;
            }
            let mut ns = st.clone();
            // model: committed only if parent is none or was the last commit; else rejected (dropped)
            let ok = match st.ovs[i].0 {
                None => true,
                Some(p) => st.last_commit_ov == Some(p),
            };
            ns.ovs[i].1 = if ok { 1 } else { 2 };
            if ok {
                ns.last_commit_ov = Some(i);
            }
            cur.push(json!({opn: i}));
            gen_overlay(&ns, depth + 1, maxdepth, max_ov, batches, with_bad_chains, with_prepared, with_rb, cur, out);
            cur.pop();
        }
        let mut ns = st.clone();
        ns.ovs[i].1 = 2;
        cur.push(json!({"ovd": i}));
        gen_overlay(&ns, depth + 1, maxdepth, max_ov, batches, with_bad_chains, with_prepared, with_rb, cur, out);
        cur.pop();
    }
    // a direct commit
    {
        let mut ns = st.clone();
        ns.last_commit_ov = None;
        cur.push(c(vec![w(3, 7)]));
        gen_overlay(&ns, depth + 1, maxdepth, max_ov, batches, with_bad_chains, with_prepared, with_rb, cur, out);
        cur.pop();
    }
    if with_prepared {
        if st.prepared.len() < 3 {
            for b in batches.iter().take(2) {
                let mut ns = st.clone();
                ns.prepared.push(false);
                cur.push(json!({"prep": {"id": st.prepared.len(), "b": b}}));
                gen_overlay(&ns, depth + 1, maxdepth, max_ov, batches, with_bad_chains, with_prepared, with_rb, cur, out);
                cur.pop();
            }
        }
        for i in 0..st.prepared.len() {
            if st.prepared[i] {
                continue;
            }
            for opn in ["fc", "fcn"] {
                let mut ns = st.clone();
                ns.prepared[i] = true;
                ns.last_commit_ov = None;
                cur.push(json!({opn: i}));
                gen_overlay(&ns, depth + 1, maxdepth, max_ov, batches, with_bad_chains, with_prepared, with_rb, cur, out);
                cur.pop();
            }
        }
    }
    if with_rb {
        for n in [1u64, 2] {
            let mut ns = st.clone();
            ns.last_commit_ov = None;
            cur.push(json!({"rb": n}));
            gen_overlay(&ns, depth + 1, maxdepth, max_ov, batches, with_bad_chains, with_prepared, with_rb, cur, out);
            cur.pop();
        }
    }
}

pub fn plan_c11(thorough: bool) -> Plan {
    let mut cases = vec![];
    // batches: overwrite+delete of seed keys, insert; and a cluster batch creating fresh pages
    for (seed, uni, batches) in [
        ("leaf", vec!["seed:0,2,5", "CL0:0-1"], vec![vec![w(0, 9), del(1)], vec![w(3, 1333), del(0)]]),
        ("cl12x19", vec!["CL12:17-23"], vec![vec![w(2, 1), w(3, 1), w(4, 1)], vec![del(0), del(1)]]),
        // committed overflow values (70000 B, 70000 B, 61381 B) next to small ones: an ancestor
        // overlay deletes a large value whose sibling then becomes the terminal of the sub-trie
        ("ovf2", vec!["seed:0,1,2,3"], vec![vec![del(0)], vec![w(1, 9), del(2)]]),
        // an overlay inserts "round" keys (prefix·1·0…0 = the exclusive upper end of the key range
        // of the sub-trie on their left); a descendant writes into that sub-trie, whose only leaf
        // is on disk
        ("round", vec!["ROUND"], vec![vec![w(2, 1), w(3, 1)], vec![w(1, 1)]]),
    ] {
        let mut cfg = rb_cfg(3, 0);
        cfg.buckets = 64;
        let st = OvState {
            ovs: vec![],
            prepared: vec![],
            last_commit_ov: None,
        };
        let mut out = vec![];
        let maxdepth = if thorough { 5 } else { 4 };
        gen_overlay(&st, 0, maxdepth, if thorough { 4 } else { 3 }, &batches, true, false, true, &mut vec![], &mut out);
        for (ops, d) in out {
            cases.push(case(seed, uni.clone(), &cfg, "all", ops, d, true));
        }
        // rollback history of committed chains: ancestor deletes / rewrites an on-disk key, the
        // descendant writes it again; committed in order; rolled back one by one
        for (a, b) in [(vec![del(0)], vec![w(0, 7)]), (vec![del(0), del(1)], vec![json!([0, "rw", 7])]), (vec![w(0, 1333)], vec![del(0)])] {
            for tail in [vec![json!({"rb": 1}), json!({"rb": 1})], vec![json!({"rb": 2})]] {
                let mut ops = vec![
                    json!({"ov": {"id": 0, "on": [], "b": a}}),
                    json!({"ov": {"id": 1, "on": [0], "b": b}}),
                    json!({"ovc": 0}),
                    json!({"ovc": 1}),
                ];
                ops.extend(tail);
                cases.push(case(seed, uni.clone(), &cfg, "all", ops, 5, true));
            }
        }
        // explicit longer sequences: a parent whose commit is rejected (or which is dropped)
        // while a child is live, then a session / commit on the child alone
        let b0 = batches[0].clone();
        let b1 = batches[1].clone();
        for rejected_via in ["ovc", "ovcn", "ovd"] {
            for tail in [json!({"ov": {"id": 2, "on": [1], "b": []}}), json!({"ovc": 1}), json!({"ov": {"id": 2, "on": [1, 0], "b": []}})] {
                let ops = vec![
                    json!({"ov": {"id": 0, "on": [], "b": b0}}),
                    json!({"ov": {"id": 1, "on": [0], "b": b1}}),
                    c(vec![w(3, 7)]),
                    json!({rejected_via: 0}),
                    tail,
                ];
                cases.push(case(seed, uni.clone(), &cfg, "all", ops, 5, true));
            }
        }
    }
    cases.extend(attempt_in_between_family());
    cases.extend(disjoint_pages_chain_family("all"));
    cases.extend(emptied_and_refilled_cluster_family("all"));
    cases.extend(macro_overlay_chains("all", 3));
    cases.extend(late_frozen_child_family());
    cases.extend(writeless_overlay_family());
    for cse in cases.iter_mut() {
        cse["final_rollback"] = json!(true);
    }
    sort_by_bound(&mut cases);
    let mut p = Plan::new(
        cases,
        "histx: every event sequence of length ≤L over {create an overlay on no parent or on any live overlay (with its live ancestor chain), begin a session on a list that is NOT a complete ancestor chain (child without its live parent, reversed chain, unrelated overlays), commit overlay i (blocking / non-blocking), drop overlay i, direct commit, rollback(1|2)} with ≤3 (thorough 4) overlays, from a leaf seed and a 19-key merkle cluster (so overlays create fresh merkle pages); oracle: a session on a complete chain reads, proves and computes the root exactly as the model with the chain applied; SessionParams::overlay is accepted iff the list is a complete ancestor chain; an overlay commit is accepted iff its parent was the last commit (or it has none) and its base is current, and then leaves exactly the state and rollback history of the equivalent direct commits; rejected/dropped/forked overlays leave no trace (audit incl. proofs after every step, final reopen). Start states: leaf seed, 19-key cluster, committed overflow values (ovf2), and an on-disk pair next to 'round' keys inserted by an overlay. Plus the attempt-in-between family: a committed parent overlay, ONE attempt that must leave no trace (an overlay whose parent is not committed / a stale unrelated overlay / a stale prepared session, through the blocking and the non-blocking entry point; the child itself deferred once), then the legitimate child, which must still be accepted; rolled back afterwards. Plus chains whose overlays touch disjoint merkle pages (one inside a stored 20-key cluster page, one under other root children; both orders; two and three levels): after the older overlays are committed one by one, sessions on the remaining younger ones alone must read and prove every key (the pages a committed ancestor wrote are found in the store again), incl. a changeset prepared on the last overlay and committed directly. Plus every chain of three overlays over two stored cluster pages and two keys elsewhere, each overlay applying one of nine macro batches {cluster A: rewrite one / insert a 21st / delete one / delete all 20 / write three; cluster B: rewrite one / delete all; elsewhere: write; nothing} (728 chains): the session view is audited at every overlay creation, the chain is committed in order with a new session on the remaining overlays after each commit, the last commit is rolled back. Plus the write-less overlay family of C09 (empty / read-only overlays committed between writing commits and rollbacks: same rollback history as the direct commits).",
    );
    p.budget_s = if thorough { 1700 } else { 55 };
    p
}


/// A committed parent overlay, then ONE attempt that must leave no trace (an overlay whose parent
/// is not committed / a stale overlay / a stale prepared session / a deferred non-blocking
/// attempt, each through the blocking and the non-blocking entry point), then the legitimate
/// child of the committed parent: it must still be accepted, and the whole history must equal the
/// one in which the attempt never happened (roots, values, seqn, rollback targets).
pub fn attempt_in_between_family() -> Vec<Value> {
    let mut cfg = rb_cfg(3, 0);
    cfg.buckets = 64;
    let mut cases = vec![];
    let b_p = vec![w(0, 9), del(1)];
    let b_c = vec![w(3, 1333)];
    let b_g = vec![w(2, 7)];
    let b_x = vec![w(1, 5)];
    for (seed, uni) in [("leaf", vec!["seed:0,2,5", "CL0:0-1"]), ("cl12x19", vec!["CL12:17-23"])] {
        for nb in [false, true] {
            let ovc = |id: u64| if nb { json!({"ovcn": id}) } else { json!({"ovc": id}) };
            // (a) grandchild first: refused (its parent is not committed), then child, then grandchild
            cases.push(case(seed, uni.clone(), &cfg, "all", vec![
                json!({"ov": {"id": 0, "on": [], "b": b_p}}),
                json!({"ov": {"id": 1, "on": [0], "b": b_c}}),
                json!({"ov": {"id": 2, "on": [1, 0], "b": b_g}}),
                json!({"ovc": 0}),
                ovc(2),
                json!({"ovc": 1}),
                json!({"ovc": 2}),
                json!({"rb": 1}),
                json!({"rb": 2}),
            ], 5, true));
            // (b) a stale unrelated overlay in between
            cases.push(case(seed, uni.clone(), &cfg, "all", vec![
                json!({"ov": {"id": 0, "on": [], "b": b_p}}),
                json!({"ov": {"id": 1, "on": [0], "b": b_c}}),
                json!({"ov": {"id": 2, "on": [], "b": b_x}}),
                json!({"ovc": 0}),
                ovc(2),
                json!({"ovc": 1}),
                json!({"rb": 2}),
            ], 5, true));
            // (c) a stale prepared session in between
            cases.push(case(seed, uni.clone(), &cfg, "all", vec![
                json!({"prep": {"id": 0, "b": b_x}}),
                json!({"ov": {"id": 0, "on": [], "b": b_p}}),
                json!({"ov": {"id": 1, "on": [0], "b": b_c}}),
                json!({"ovc": 0}),
                if nb { json!({"fcn": 0}) } else { json!({"fc": 0}) },
                json!({"ovc": 1}),
                json!({"rb": 1}),
                json!({"rb": 1}),
            ], 5, true));
        }
        // (d) the child itself deferred once (a session is alive on the calling thread), then committed
        cases.push(case(seed, uni.clone(), &cfg, "all", vec![
            json!({"ov": {"id": 0, "on": [], "b": b_p}}),
            json!({"ov": {"id": 1, "on": [0], "b": b_c}}),
            json!({"ovc": 0}),
            json!({"hold": 0}),
            json!({"ovcn": 1}),
            json!({"release": 0}),
            json!({"ovc": 1}),
            json!({"rb": 2}),
        ], 5, true));
        // (e) the same attempts before the PARENT is committed
        cases.push(case(seed, uni.clone(), &cfg, "all", vec![
            json!({"ov": {"id": 0, "on": [], "b": b_p}}),
            json!({"ov": {"id": 1, "on": [0], "b": b_c}}),
            json!({"ovc": 1}),
            json!({"ovcn": 1}),
            json!({"ovc": 0}),
            json!({"ovc": 1}),
            json!({"rb": 1}),
        ], 5, true));
    }
    cases
}

/// A changeset prepared by a session on a chain of uncommitted overlays and committed DIRECTLY
/// (FinishedSession::commit) after the chain was committed — with, in between, nothing / a commit /
/// a commit that is rolled back again (same root, physically different page table when the commit
/// crossed the page-elision boundary) / a rollback of the chain itself. From a 19-key cluster right
/// below the elision threshold, so that overlay, prepared changeset or the commit in between creates
/// the cluster's page.
pub fn prepared_on_overlay_family() -> Vec<Value> {
    let mut cases = vec![];
    let mut cfg = rb_cfg(3, 0);
    cfg.buckets = 64;
    let uni = vec!["CL12:17-23"];
    let batches: Vec<Vec<Value>> = vec![vec![w(0, 5)], vec![w(2, 1)], vec![del(0)], vec![w(2, 1), w(3, 1)]];
    let betweens: Vec<Vec<Value>> = vec![
        vec![],
        vec![c(vec![w(4, 1)]), json!({"rb": 1})],
        vec![c(vec![w(4, 1), w(5, 1)]), json!({"rb": 1})],
        vec![c(vec![del(1)]), json!({"rb": 1})],
        vec![c(vec![w(4, 1)])],
        vec![json!({"rb": 1})],
        vec![json!({"rb": 1}), c(vec![w(4, 1)])],
    ];
    for a in &batches {
        for x in &batches {
            for (bi, between) in betweens.iter().enumerate() {
                for fc in ["fc", "fcn"] {
                    if fc == "fcn" && bi > 2 {
                        continue;
                    }
                    let mut ops = vec![json!({"ov": {"id": 0, "on": [], "b": a}}), json!({"prep": {"id": 0, "on": [0], "b": x}}), json!({"ovc": 0})];
                    ops.extend(between.iter().cloned());
                    ops.push(json!({fc: 0}));
                    ops.push(c(vec![w(5, 3), del(2)]));
                    ops.push(json!({"reopen": {}}));
                    ops.push(c(vec![w(2, 2)]));
                    ops.push(json!({"rb": 1}));
                    cases.push(case("cl12x19", uni.clone(), &cfg, "all", ops, 4, true));
                }
            }
        }
    }
    // two-level chain: prepared on [B, A]; A and B committed in order; the same in-betweens
    for (bi, between) in betweens.iter().enumerate().take(4) {
        let _ = bi;
        let mut ops = vec![
            json!({"ov": {"id": 0, "on": [], "b": [w(0, 5)]}}),
            json!({"ov": {"id": 1, "on": [0], "b": [w(2, 1)]}}),
            json!({"prep": {"id": 0, "on": [1, 0], "b": [w(3, 1)]}}),
            json!({"ovc": 0}),
            json!({"ovc": 1}),
        ];
        ops.extend(between.iter().cloned());
        ops.push(json!({"fc": 0}));
        ops.push(c(vec![w(5, 3), del(2)]));
        ops.push(json!({"reopen": {}}));
        ops.push(c(vec![w(2, 2)]));
        cases.push(case("cl12x19", uni.clone(), &cfg, "all", ops, 4, true));
    }
    cases
}


/// Chains whose overlays touch DISJOINT merkle pages: one overlay works inside a stored cluster
/// page (20 keys under one depth-2 page), the other writes keys under other root children. After
/// the older one has been committed, a session on the younger one alone must find the pages the
/// committed ancestor wrote in the store again (the younger overlay's index still lists them).
pub fn disjoint_pages_chain_family(audit: &str) -> Vec<Value> {
    let mut cfg = rb_cfg(3, 0);
    cfg.buckets = 64;
    let uni = vec!["CL12:17-23", "U4"]; // indices 0-5: cluster (0-2 present), 6-9: elsewhere (absent)
    let cluster: Vec<Vec<Value>> = vec![vec![w(0, 5)], vec![w(4, 1)], vec![del(0)], vec![del(0), del(1)]];
    let elsewhere: Vec<Vec<Value>> = vec![vec![w(6, 1)], vec![w(6, 1), w(9, 1333)]];
    let mut cases = vec![];
    for a in &cluster {
        for b in &elsewhere {
            for swapped in [false, true] {
                let (first, second) = if swapped { (b, a) } else { (a, b) };
                // two-level chain; the parent is committed; sessions on the child alone
                cases.push(case("cl12x20", uni.clone(), &cfg, audit, vec![
                    json!({"ov": {"id": 0, "on": [], "b": first}}),
                    json!({"ov": {"id": 1, "on": [0], "b": second}}),
                    json!({"ovc": 0}),
                    json!({"ov": {"id": 2, "on": [1], "b": [w(7, 1), w(3, 2)]}}),
                    json!({"ovc": 1}),
                    json!({"ov": {"id": 3, "on": [2], "b": [w(8, 1)]}}),
                    json!({"ovc": 2}),
                    json!({"rb": 1}),
                ], 4, true));
                // three-level chain; the two oldest committed one by one
                cases.push(case("cl12x20", uni.clone(), &cfg, audit, vec![
                    json!({"ov": {"id": 0, "on": [], "b": first}}),
                    json!({"ov": {"id": 1, "on": [0], "b": second}}),
                    json!({"ov": {"id": 2, "on": [1, 0], "b": [w(8, 1)]}}),
                    json!({"ovc": 0}),
                    json!({"ov": {"id": 3, "on": [2, 1], "b": [w(7, 1)]}}),
                    json!({"ovc": 1}),
                    json!({"ov": {"id": 4, "on": [2], "b": [w(3, 2)]}}),
                    json!({"prep": {"id": 0, "on": [2], "b": [w(5, 4)]}}),
                    json!({"ovc": 2}),
                    json!({"fc": 0}),
                ], 5, true));
            }
        }
    }
    cases
}


/// Batches of many hundred warmed-up keys inside one merkle worker's range (the update consumes
/// the warm-up worker's finished seeks through a bounded look-ahead queue).
pub fn bulk_warm_up_family(audit: &str) -> Vec<Value> {
    let mut cases = vec![];
    for cc in [1usize, 2] {
        let mut cfg = Cfg::default();
        cfg.cc = cc;
        cfg.warm_up = true;
        cfg.buckets = 4096;
        for ops in [
            vec![json!({"cw": [[0, "wn", 1300]]}), json!({"cw": [[100, "rn", 600], [800, "dn", 50]]})],
            vec![json!({"cw": [[0, "rn", 700], [700, "wn", 600]]}), json!({"cw": [[0, "dn", 650]]})],
        ] {
            cases.push(case("bulk", vec!["seed:all"], &cfg, audit, ops, 3, true));
        }
    }
    cases
}


/// Overlays that write nothing (an empty batch, a read-only batch) committed like any other: a
/// direct commit of such a batch is one commit as far as rollback is concerned, so the overlay's
/// commit must be one too. Every sequence of ≤4 symbols over {two writing commits, an empty overlay
/// committed, a read-only overlay committed, a write-less overlay on top of a writing overlay (both
/// committed), rollback(1), rollback(2)}.
pub fn writeless_overlay_family() -> Vec<Value> {
    let symbols: Vec<Vec<Value>> = vec![
        vec![c(vec![w(0, 1), w(1, 2)])],
        vec![c(vec![w(1, 1333), del(0)])],
        vec![json!({"ov": {"id": 0, "on": [], "b": []}}), json!({"ovc": 0})],
        vec![json!({"ov": {"id": 0, "on": [], "b": [[0, "r"], [2, "r"]]}}), json!({"ovc": 0})],
        vec![json!({"ov": {"id": 0, "on": [], "b": [w(2, 5)]}}), json!({"ov": {"id": 1, "on": [0], "b": [[2, "r"]]}}), json!({"ovc": 0}), json!({"ovc": 1})],
        vec![json!({"rb": 1})],
        vec![json!({"rb": 2})],
    ];
    let cfg = rb_cfg(3, 0);
    let mut cases = vec![];
    for (ops, n) in sequences(&symbols, 4) {
        let s = Value::Array(ops.clone()).to_string();
        if !(s.contains("\"ovc\"") && s.contains("\"rb\"")) {
            continue;
        }
        // overlay ids must be unique per occurrence
        let mut ops = ops;
        let mut next_id = 0u64;
        let mut map: std::collections::BTreeMap<u64, u64> = Default::default();
        for o in ops.iter_mut() {
            if o.get("ov").is_some() {
                let old = o["ov"]["id"].as_u64().unwrap();
                if old == 0 {
                    map.clear();
                }
                map.insert(old, next_id);
                o["ov"]["id"] = json!(next_id);
                let on: Vec<u64> = o["ov"]["on"].as_array().unwrap().iter().map(|x| map[&x.as_u64().unwrap()]).collect();
                o["ov"]["on"] = json!(on);
                next_id += 1;
            } else if o.get("ovc").is_some() {
                let old = o["ovc"].as_u64().unwrap();
                o["ovc"] = json!(map[&old]);
            }
        }
        cases.push(case("empty", vec!["U4"], &cfg, "noproof", ops, n, true));
    }
    cases
}


/// A stored cluster page emptied by an older overlay and partly refilled by a younger one: the
/// older overlay deletes all 20 keys under the depth-2 page (the page is cleared in that overlay),
/// the younger one writes k of them back (k = 1, 2, 3, 19: the page exists again but elided; 20,
/// 21: stored again); sessions on [younger, older] prove every key.
pub fn emptied_and_refilled_cluster_family(audit: &str) -> Vec<Value> {
    let mut cfg = rb_cfg(3, 0);
    cfg.buckets = 64;
    let uni = vec!["CL12:0-24"]; // 0..19 present in the seed, 20..23 absent
    let mut cases = vec![];
    for k in [1u64, 2, 3, 19, 20, 21] {
        for shift in [0u64, 2] {
            let refill: Vec<Value> = (0..k).map(|i| w((i + shift) % 24, 3)).collect();
            cases.push(case("cl12x20", uni.clone(), &cfg, audit, vec![
                json!({"ov": {"id": 0, "on": [], "b": [[0, "dn", 20]]}}),
                json!({"ov": {"id": 1, "on": [0], "b": refill}}),
                json!({"ov": {"id": 2, "on": [1, 0], "b": [w(22, 1)]}}),
                json!({"ovc": 0}),
                json!({"ov": {"id": 3, "on": [2, 1], "b": [w(23, 1)]}}),
                json!({"ovc": 1}),
                json!({"ovc": 2}),
                json!({"rb": 1}),
            ], 4, true));
        }
    }
    cases
}


/// Systematic overlay chains over two stored cluster pages (A, B: 20 keys each under different
/// root children) and two keys elsewhere: every chain of `depth` overlays, each applying one of
/// nine macro batches {A: rewrite one / insert a 21st / delete one (19 left) / delete all 20 /
/// write three (refill or rewrite); B: rewrite one / delete all; elsewhere: write; nothing}; every
/// overlay creation audits the session's view on the chain (reads, proofs, root); then the chain is
/// committed in order with a new session on the remaining overlays after each commit, and the last
/// commit rolled back.
pub fn macro_overlay_chains(audit: &str, depth: usize) -> Vec<Value> {
    let mut cfg = rb_cfg(3, 0);
    cfg.buckets = 256;
    let macros: Vec<Vec<Value>> = vec![
        vec![w(0, 5)],
        vec![w(20, 1)],
        vec![del(1)],
        vec![json!([0, "dn", 20])],
        vec![w(2, 3), w(3, 3), w(21, 3)],
        vec![w(24, 5)],
        vec![json!([24, "dn", 20])],
        vec![w(48, 2)],
        vec![],
    ];
    let mut cases = vec![];
    let n = macros.len();
    let total = n.pow(depth as u32);
    for code in 0..total {
        let mut c0 = code;
        let picks: Vec<usize> = (0..depth).map(|_| { let x = c0 % n; c0 /= n; x }).collect();
        // (chains that do nothing at all are not interesting)
        if picks.iter().all(|p| *p == n - 1) {
            continue;
        }
        let mut ops: Vec<Value> = vec![];
        for (i, p) in picks.iter().enumerate() {
            let on: Vec<usize> = (0..i).rev().collect();
            ops.push(json!({"ov": {"id": i, "on": on, "b": macros[*p]}}));
        }
        // commit in order; after each commit a fresh session on what is left of the chain
        let mut next_id = depth;
        for i in 0..depth {
            ops.push(json!({"ovc": i}));
            let rest: Vec<usize> = (i + 1..depth).rev().collect();
            if !rest.is_empty() {
                ops.push(json!({"ov": {"id": next_id, "on": rest, "b": [w(49, 1 + i as u64)]}}));
                next_id += 1;
            }
        }
        ops.push(json!({"rb": 1}));
        cases.push(case("ab20", vec!["AB"], &cfg, audit, ops, depth, true));
    }
    cases
}


/// A changeset prepared on an overlay P is frozen into an overlay C (`into_overlay`) only AFTER P
/// has been committed; then nothing / a commit / a commit and its rollback / a rollback of P happen,
/// and C is committed (blocking / non-blocking): C is P's child whenever it was frozen — accepted
/// only if P's commit was the last commit.
pub fn late_frozen_child_family() -> Vec<Value> {
    let mut cases = vec![];
    let mut cfg = rb_cfg(3, 0);
    cfg.buckets = 64;
    let uni = vec!["CL12:17-23"];
    let betweens: Vec<Vec<Value>> = vec![
        vec![],
        vec![c(vec![w(4, 1)]), json!({"rb": 1})],
        vec![c(vec![])],
        vec![c(vec![w(4, 1)])],
        vec![json!({"rb": 1})],
    ];
    for a in [vec![w(0, 5)], vec![w(2, 1)]] {
        for x in [vec![w(3, 1)], vec![del(1)]] {
            for between in &betweens {
                for ovc in ["ovc", "ovcn"] {
                    let mut ops = vec![json!({"ov": {"id": 0, "on": [], "b": a}}), json!({"prep": {"id": 0, "on": [0], "b": x}}), json!({"ovc": 0}), json!({"p2ov": {"prep": 0, "ov": 1}})];
                    ops.extend(between.iter().cloned());
                    ops.push(json!({ovc: 1}));
                    ops.push(c(vec![w(5, 3)]));
                    ops.push(json!({"rb": 1}));
                    let mut cse = case("cl12x19", uni.clone(), &cfg, "all", ops, 4, true);
                    cse["final_rollback"] = json!(true);
                    cases.push(cse);
                }
            }
        }
    }
    cases
}

/// The state returns to an earlier root through NON-BLOCKING overlay commits only (an overlay
/// inserts a 20th key below a 19-key cluster — the cluster's page becomes stored —, a second one
/// deletes it again), and a changeset prepared before is committed afterwards: refused, or — if
/// accepted because the content is the same — harmless in everything that follows.
pub fn aba_through_overlay_commits_family() -> Vec<Value> {
    let mut cases = vec![];
    let mut cfg = rb_cfg(3, 0);
    cfg.buckets = 64;
    let uni = vec!["CL12:17-23"];
    for x in [vec![w(2, 1)], vec![w(2, 1), w(3, 1)], vec![w(0, 9)]] {
        for (o1, o2) in [("ovcn", "ovcn"), ("ovc", "ovcn"), ("ovcn", "ovc")] {
            for fc in ["fc", "fcn"] {
                let ops = vec![
                    json!({"prep": {"id": 0, "b": x}}),
                    json!({"ov": {"id": 0, "on": [], "b": [w(4, 1)]}}),
                    json!({"ov": {"id": 1, "on": [0], "b": [del(4)]}}),
                    json!({o1: 0}),
                    json!({o2: 1}),
                    json!({fc: 0}),
                    c(vec![w(5, 3), del(2)]),
                    json!({"reopen": {}}),
                    c(vec![w(2, 2)]),
                ];
                let mut cse = case("cl12x19", uni.clone(), &cfg, "all", ops, 4, true);
                cse["final_rollback"] = json!(true);
                cases.push(cse);
            }
        }
    }
    cases
}


/// An overlay deletes a run of on-disk keys that spans several bottom-level branch nodes of the
/// value tree (seed `wide`: 1500 keys, 500 leaves, three branch nodes) — everything but the greatest
/// key, everything but the smallest, the middle thousand — and a session on it proves survivors and
/// deleted keys (the leaf-preimage scan has to hop from one branch node to the next, with and
/// without an upper bound).
pub fn overlay_deleting_across_branch_nodes_family(audit: &str) -> Vec<Value> {
    let mut cfg = rb_cfg(3, 0);
    cfg.buckets = 4096;
    let mut cases = vec![];
    for (start, n) in [(0u64, 1499u64), (1, 1499), (250, 1000), (0, 1500)] {
        let ops = vec![
            json!({"ov": {"id": 0, "on": [], "b": [[start, "dn", n]]}}),
            json!({"ov": {"id": 1, "on": [0], "b": [[(start + n / 2) % 1500, "w", 3]]}}),
            json!({"ovc": 0}),
            json!({"ovc": 1}),
        ];
        let mut cse = case("wide", vec!["seed:all"], &cfg, audit, ops, 3, true);
        cse["audit_stride"] = json!(37);
        cases.push(cse);
    }
    cases
}

pub fn plan_c12(thorough: bool) -> Plan {
    let mut cases = vec![];
    for (seed, uni, batches) in [
        ("leaf", vec!["seed:0,2,5", "CL0:0-1"], vec![vec![w(0, 9), del(1)], vec![w(3, 1333), w(0, 4)]]),
        ("cl12x20", vec!["CL12:18-23"], vec![vec![del(0), del(1)], vec![w(2, 1), w(3, 1)]]),
    ] {
        let mut cfg = rb_cfg(3, 0);
        cfg.buckets = 64;
        let st = OvState {
            ovs: vec![],
            prepared: vec![],
            last_commit_ov: None,
        };
        let mut out = vec![];
        let maxdepth = if thorough { 5 } else { 4 };
        gen_overlay(&st, 0, maxdepth, 2, &batches, false, true, true, &mut vec![], &mut out);
        for (ops, d) in out {
            // only sequences that contain a competing attempt are of interest
            let s = Value::Array(ops.clone()).to_string();
            if !(s.contains("\"fc\"") || s.contains("\"fcn\"") || s.contains("\"ovc\"") || s.contains("\"ovcn\"")) {
                continue;
            }
            cases.push(case(seed, uni.clone(), &cfg, "noproof", ops, d, true));
        }
    }
    // deferred non-blocking commits: a session is alive on the calling thread, the non-blocking
    // commit must hand the changeset back unchanged; after the session ends it is committed; the
    // rollback history must be exactly that of one commit
    {
        let mut cfg = rb_cfg(3, 0);
        cfg.buckets = 64;
        let b0 = vec![w(0, 9), del(1)];
        let b1 = vec![w(3, 1333)];
        for ndefer in [1usize, 2, 3] {
            for flavour in ["session", "overlay"] {
                for finish in ["nb", "blocking"] {
                    let mut ops = vec![c(vec![w(0, 1), w(1, 2)]), c(b1.clone())];
                    if flavour == "session" {
                        ops.push(json!({"prep": {"id": 0, "b": b0}}));
                    } else {
                        ops.push(json!({"ov": {"id": 0, "on": [], "b": b0}}));
                    }
                    for _ in 0..ndefer {
                        ops.push(json!({"hold": 0}));
                        ops.push(if flavour == "session" { json!({"fcn": 0}) } else { json!({"ovcn": 0}) });
                        ops.push(json!({"release": 0}));
                    }
                    ops.push(match (flavour, finish) {
                        ("session", "nb") => json!({"fcn": 0}),
                        ("session", _) => json!({"fc": 0}),
                        (_, "nb") => json!({"ovcn": 0}),
                        _ => json!({"ovc": 0}),
                    });
                    ops.push(json!({"rb": 1}));
                    ops.push(json!({"rb": 1}));
                    cases.push(case("empty", vec!["U4"], &cfg, "noproof", ops, 4, true));
                }
            }
        }
        // a direct non-blocking commit while a session is alive is simply handed back
        cases.push(case("empty", vec!["U4"], &cfg, "noproof", vec![c(vec![w(0, 1)]), json!({"hold": 0}), json!({"cn": [w(1, 1)]}), json!({"release": 0}), json!({"rb": 1})], 3, true));
    }
    cases.extend(attempt_in_between_family());
    cases.extend(prepared_on_overlay_family());
    cases.extend(late_frozen_child_family());
    cases.extend(aba_through_overlay_commits_family());
    for cse in cases.iter_mut() {
        cse["final_rollback"] = json!(true);
    }
    // the schedule part: two changesets / overlays on one base, and a changeset against a
    // rollback, under every schedule of the API lock points with ≤2 preemptions (C15's harnesses)
    for b in 0..=(if thorough { 3u64 } else { 2 }) {
        for h in ["H3", "H3nb", "H3ov", "H8", "H8ov"] {
            cases.push(json!({"harness": h, "bound": b, "max_exec": if thorough { 200000 } else { 4000 }, "budget_s": if thorough { 1500 } else { 40 }}));
        }
    }
    sort_by_bound(&mut cases);
    let mut p = Plan::new(
        cases,
        "histx: every event sequence of length ≤L over {prepare a changeset (finished session) on the current state (2 batches, ≤3 prepared), commit prepared changeset i (blocking / non-blocking), create ≤2 overlays, commit / drop an overlay (blocking / non-blocking), direct commit, rollback(1|2)} from a leaf seed and a 20-key merkle cluster, rollback enabled; plus deferred non-blocking commits (1–3 attempts of a prepared session / overlay while a session is alive on the calling thread must each hand the changeset back and change nothing; it is then committed and rolled back); oracle: an attempt is accepted iff its base equals the current state (overlay: and its parent was the last commit), a rejected attempt returns an error, does not poison, and values, root, sync_seqn and what every later rollback restores are those of the model in which the attempt never happened; final reopen; every history ends with one more rollback(1) as a probe of the rollback history (a stray or a missing record shows whatever the history did last). Plus the attempt-in-between family of C11 (the commit-order bookkeeping must survive refused and deferred attempts); changesets prepared by a session on a chain of uncommitted overlays and committed directly after the chain was committed, with nothing / a commit / a commit rolled back again (page-elision boundary crossed and re-crossed) / a rollback of the chain in between; a changeset prepared on an overlay P and frozen into an overlay (into_overlay) only after P was committed, then committed after nothing / a commit / a commit and its rollback / a rollback (it is P's child whenever it was frozen); a return to an earlier root through non-blocking overlay commits only (insert a 20th key below a 19-key cluster, delete it again) followed by the commit of a changeset prepared before; and, under the controlled scheduler, every schedule with ≤2 (thorough 3) preemptions of two threads committing changesets (blocking / non-blocking / overlay) prepared on one base, and of a prepared changeset or overlay against rollback(1): exactly the attempts whose base is current at the moment they are applied win, the loser changes nothing (harnesses H3, H3nb, H3ov, H8, H8ov of C15).",
    );
    p.budget_s = if thorough { 1700 } else { 55 };
    p
}

// ---------------------------------------------------------------------------------------------

pub fn plan_c05(thorough: bool) -> Plan {
    let mut cases = vec![];
    let acts: Vec<Value> = vec![json!(["w", 1]), json!(["d"])];
    for buckets in if thorough { vec![8u32, 32, 4096] } else { vec![32u32, 4096] } {
        let mut cfg = Cfg::default();
        cfg.buckets = buckets;
        cfg.page_cache = 1;
        let mk = |seed: &'static str, uni: Vec<&'static str>, cfg: Cfg| move |ops: Vec<Value>, b: usize| case(seed, uni.clone(), &cfg, "proofs", ops, b, true);
        // geometry family with absent neighbours at every page boundary
        cases.extend(enum_commit_histories(1, 4, if thorough { 3 } else { 2 }, &acts, &mk("empty", vec!["NB:U4"], cfg.clone())));
        // the extremes of the key space and their one-bit neighbours
        cases.extend(enum_commit_histories(if thorough { 2 } else { 1 }, 6, if thorough { 3 } else { 2 }, &acts, &mk("empty", vec!["EXT", "NB:EXT"], cfg.clone())));
        if buckets >= 32 {
            for seed in ["cl12x19", "cl12x20", "cl18x21"] {
                let uni: Vec<&'static str> = match seed {
                    "cl12x19" => vec!["NB:CL12:17-21"],
                    "cl12x20" => vec!["NB:CL12:18-22"],
                    _ => vec!["NB:CL18:19-23"],
                };
                cases.extend(enum_commit_histories(if thorough { 2 } else { 1 }, 4, 2, &acts, &mk(seed, uni, cfg.clone())));
            }
        }
    }
    // sessions layered on overlays: chain of depth ≤ 2 over the cluster (proofs checked in "ov")
    let mut cfg = Cfg::default();
    cfg.buckets = 64;
    for (b1, b2) in [(vec![del(0), del(1)], vec![w(4, 1)]), (vec![w(4, 1), w(5, 1)], vec![del(0)]), (vec![del(0)], vec![del(1), del(2)])] {
        cases.push(case(
            "cl12x20",
            vec!["NB:CL12:17-23"],
            &cfg,
            "proofs",
            vec![json!({"ov": {"id": 0, "on": [], "b": b1}}), json!({"ov": {"id": 1, "on": [0], "b": b2}}), json!({"ov": {"id": 2, "on": [1, 0], "b": []}})],
            3,
            false,
        ));
    }
    // an overlay inserting "round" keys (prefix·1·0…0 = the exclusive upper end of the key range of
    // the sub-trie on their left, whose only leaf is on disk): proofs of every universe key and of
    // the absent neighbours through sessions on the overlay and on a descendant
    for (b1, b2) in [(vec![w(2, 1), w(3, 1)], vec![w(1, 1)]), (vec![w(2, 1)], vec![]), (vec![w(3, 1), del(0)], vec![w(2, 5)])] {
        cases.push(case(
            "round",
            vec!["ROUND", "NB:ROUND"],
            &cfg,
            "proofs",
            vec![json!({"ov": {"id": 0, "on": [], "b": b1}}), json!({"ov": {"id": 1, "on": [0], "b": b2}}), json!({"ov": {"id": 2, "on": [1, 0], "b": []}})],
            3,
            false,
        ));
    }
    // overlay that deletes a run of consecutive on-disk keys spanning several value-leaf pages
    // (3 keys per leaf in the branch seed); proofs for the survivors and the deleted keys
    {
        let mut cfg = Cfg::default();
        cfg.buckets = 256;
        for start in [0u64, 1, 4] {
            for run in [1u64, 3, 4, 7, 11] {
                let b: Vec<Value> = (start..start + run).map(del).collect();
                cases.push(case(
                    "branch",
                    vec!["seed:0,1,2,3,4,5,6,7,8,9,10,11,12,13,14,15,16"],
                    &cfg,
                    "proofs",
                    vec![json!({"ov": {"id": 0, "on": [], "b": b}}), json!({"ov": {"id": 1, "on": [0], "b": []}})],
                    3,
                    false,
                ));
            }
        }
    }
    cases.extend(tombstone_family("proofs", thorough));
    cases.extend(sparse_cluster_promotion_family("proofs", thorough).into_iter().filter(|c| thorough || c["bound"].as_u64().unwrap_or(0) >= 2));
    cases.extend(disjoint_pages_chain_family("proofs"));
    cases.extend(emptied_and_refilled_cluster_family("proofs"));
    cases.extend(overlay_deleting_across_branch_nodes_family("proofs"));
    cases.extend(macro_overlay_chains("proofs", if thorough { 3 } else { 2 }));
    add_quiet(&mut cases, if thorough { 1 } else { 2 });
    add_io_reverse(&mut cases, if thorough { 2 } else { 3 });
    add_pool_poison(&mut cases, if thorough { 3 } else { 7 }, 0xA5);
    sort_by_bound(&mut cases);
    let mut p = Plan::new(
        cases,
        "histx: all histories of ≤D commits with ≤B key actions {insert, delete} over a 4-key family and over 19/20/21-key merkle clusters (paths crossing elided pages), hash tables of 8/32/4096 buckets, minimum page cache; universe = the keys plus, for each, the absent keys differing in exactly one of bits {0,1,5,6,7,11,12,13,18,127,254,255}; after every commit and after a final reopen (cold cache) every universe key is proven in a fresh session: the proof verifies against session.prev_root() (= reference root) and confirms exactly the model's view (value hash for present keys, non-existence for absent ones); plus sessions layered on overlay chains of depth 1–2 and 3 over the cluster, overlays deleting runs of 1..11 consecutive on-disk keys across several value-leaf pages, chains whose overlays touch disjoint merkle pages, a stored 20-key cluster page emptied by an older overlay and refilled with 1/2/3/19/20/21 keys by a younger one (sessions on both), every chain of two (thorough three) overlays over two stored cluster pages with nine macro batches each (see C11), overlays deleting runs of 1000–1500 on-disk keys across three bottom-level branch nodes of the value tree (everything but the greatest key / but the smallest / the middle thousand / everything), and the tombstone family (tiny hash tables of 16/32 buckets × 16 bitbox seeds, 10 pages inserted, every single page and every pair of pages removed again, then a cold reopen).",
    );
    p.budget_s = if thorough { 1700 } else { 55 };
    p
}

pub fn plan_c06(thorough: bool) -> Plan {
    let mut cases = vec![];
    // per-key action ∈ {none, read, write, read-then-write, delete, read-then-delete}; delete /
    // read of absent keys arise from the universe containing absent keys
    let acts: Vec<Value> = vec![json!(["r"]), json!(["w", 1]), json!(["rw", 2]), json!(["d"]), json!(["rd"])];
    for cc in if thorough { vec![1usize, 2, 3] } else { vec![1usize, 3] } {
        for warm in [false, true] {
            let mut cfg = Cfg::default();
            cfg.cc = cc;
            cfg.warm_up = warm;
            cfg.buckets = 256;
            for (seed, uni) in [("empty", vec!["U1"]), ("leaf", vec!["seed:0,2,5", "U4"]), ("cl12x20", vec!["CL12:17-23"]), ("bulk", vec!["seed:0,700,1499", "U4"])] {
                // quick: warmed-up sessions (the update reuses the seeks the warm-up worker has
                // finished) for the two small prior states only
                if warm && !thorough && (seed == "leaf" || seed == "bulk") {
                    continue;
                }
                let k = match seed {
                    "empty" => 6,
                    "cl12x20" => 6,
                    _ => 7,
                };
                let b = if thorough { 3 } else { 2 };
                let mut cs = enum_commit_histories(1, k, b, &acts, &|ops: Vec<Value>, b: usize| case(seed, uni.clone(), &cfg, "root", ops, b, false));
                // turn the single commit into a witnessed commit, preceded by a fixed populating commit
                for cse in cs.iter_mut() {
                    let ops = cse["ops"].as_array().unwrap().clone();
                    let batch = ops[0]["c"].clone();
                    let mut o = vec![];
                    if seed == "empty" {
                        o.push(c(vec![w(0, 1), w(1, 1), w(4, 1)]));
                    }
                    o.push(json!({"cw": batch}));
                    cse["ops"] = Value::Array(o);
                }
                // the same batches as a witnessed session layered on an uncommitted overlay that
                // has rewritten / deleted some of the keys
                if cc == 1 && !warm && (seed == "leaf" || seed == "cl12x20") {
                    for cse in cs.clone().iter() {
                        let ops = cse["ops"].as_array().unwrap();
                        let batch = ops.last().unwrap()["cw"].clone();
                        let mut n = cse.clone();
                        n["ops"] = json!([
                            {"ov": {"id": 0, "on": [], "b": [w(0, 7), del(1), w(3, 2)]}},
                            {"ov": {"id": 1, "on": [0], "b": batch, "w": true}},
                        ]);
                        cases.push(n);
                    }
                }
                // the same witnessed batches right after a COLD reopen (nothing read back: the stored
                // merkle pages below the root are fetched while the session seeks — keys sharing a
                // cold page join one in-flight load)
                if !warm && (seed == "cl12x20" || seed == "bulk") {
                    for cse in cs.clone().iter() {
                        let mut n = cse.clone();
                        let mut o = vec![json!({"reopen": {"cold": true}})];
                        o.extend(cse["ops"].as_array().unwrap().iter().cloned());
                        n["ops"] = Value::Array(o);
                        n["quiet"] = json!(true);
                        cases.push(n);
                    }
                }
                cases.extend(cs);
            }
        }
    }
    // a tiny trie (two leaves right below the root) whose terminals span the key ranges of several
    // workers: 3, 5 (6, 7) workers, every witnessed batch of ≤3 writes/deletes over keys placed
    // around the range boundaries
    for cc in if thorough { vec![3usize, 5, 6, 7] } else { vec![3usize, 5] } {
        let mut cfg = Cfg::default();
        cfg.cc = cc;
        cfg.buckets = 256;
        let acts2: Vec<Value> = vec![json!(["w", 1]), json!(["d"]), json!(["rw", 2])];
        let mut cs = enum_commit_histories(1, 10, 3, &acts2, &|ops: Vec<Value>, b: usize| case("empty", vec!["WRK"], &cfg, "root", ops, b, false));
        for cse in cs.iter_mut() {
            let ops = cse["ops"].as_array().unwrap().clone();
            let batch = ops[0]["c"].clone();
            cse["ops"] = Value::Array(vec![c(vec![w(0, 1), w(9, 1)]), json!({"cw": batch})]);
        }
        cases.extend(cs);
    }
    // ten keys in one depth-1 page, all present: every witnessed batch of ≤3 reads / writes /
    // deletes (a written terminal followed by a read-only one followed by a third, at every
    // combination of depths)
    {
        let mut cfg = Cfg::default();
        cfg.buckets = 256;
        let acts3: Vec<Value> = vec![json!(["r"]), json!(["w", 1]), json!(["d"])];
        let mut cs = enum_commit_histories(1, 10, 3, &acts3, &|ops: Vec<Value>, b: usize| case("empty", vec!["DEEP"], &cfg, "root", ops, b, false));
        for cse in cs.iter_mut() {
            let ops = cse["ops"].as_array().unwrap().clone();
            let batch = ops[0]["c"].clone();
            cse["ops"] = Value::Array(vec![c((0..10).map(|i| w(i, 1)).collect()), json!({"cw": batch})]);
        }
        cases.extend(cs);
    }
    cases.extend(bulk_warm_up_family("root"));
    sort_by_bound(&mut cases);
    let mut p = Plan::new(
        cases,
        "histx: for prior states {3 colliding keys, leaf seed, 20-key merkle cluster, 1500 random keys} × commit workers {1,2,3} × warm-up {off, on: every key of the batch / every second key warmed up, with a 1 ms settle so that the warm-up worker has finished its seeks and the update re-uses them}: every sorted batch with ≤B non-trivial per-key actions {read, write, read-then-write, delete, read-then-delete} over a 6–7 key universe of present and absent keys (several keys on one terminal, keys in different root-child ranges); plus, with 3 and 5 (thorough 6, 7) workers, every batch of ≤3 actions over 10 keys placed on both sides of the workers' range boundaries in a two-leaf trie (one terminal spans several workers' ranges); plus the cluster / 1500-key batches right after a cold reopen (the stored merkle pages are fetched while the session seeks; keys sharing a cold page join one in-flight load); plus the leaf / cluster batches as a witnessed session layered on an uncommitted overlay that rewrote and deleted universe keys; plus every batch of ≤3 {read, write, delete} over ten present keys that share one depth-1 page at mixed depths (DEEP); plus witnessed batches of 650–1300 warmed-up keys (reads, writes, deletes) over 1500 random keys with 1 and 2 workers (the update consumes the finished warm-up seeks through its bounded look-ahead queue); the session runs with witnessing on; oracle: every witnessed path verifies against the previous root (= reference root), every witnessed read attests exactly the value hash the session observed and is confirmed by its path, every written key is covered with the right value hash and in scope of its path, and proof::verify_update over the witnessed writes = FinishedSession::root = reference root of the updated set.",
    );
    p.budget_s = if thorough { 1700 } else { 55 };
    p
}

pub fn plan_c13(thorough: bool) -> Plan {
    // configuration deviations from the default
    let mut menu: Vec<Value> = vec![json!({})];
    for cc in [2, 3, 5, 6, 7, 16, 64, 65] {
        menu.push(json!({"cc": cc}));
    }
    menu.push(json!({"warm_up": true}));
    menu.push(json!({"io_reverse": true}));
    for m in [1, 2, 3] {
        menu.push(json!({"leaf_amnesia": m}));
    }
    // the page pool hands out buffers full of 0xA5 (reads as leaf nodes) / 0x5A (internal nodes)
    menu.push(json!({"pool_poison": 0xA5}));
    menu.push(json!({"pool_poison": 0x5A}));
    // hashers: Sha2, Blake3 with flipped kind labels, Blake3 with the kind in the last bit
    for h in [1, 2, 3] {
        menu.push(json!({"hasher": h}));
    }
    menu.push(json!({"page_cache": 0}));
    menu.push(json!({"page_cache": 1}));
    menu.push(json!({"leaf_cache": 0}));
    menu.push(json!({"leaf_cache": 1}));
    menu.push(json!({"io_workers": 2}));
    menu.push(json!({"io_workers": 3}));
    menu.push(json!({"buckets": 1000}));
    menu.push(json!({"buckets": 65536}));
    menu.push(json!({"seed": 200}));
    for ul in [0, 1, 3] {
        menu.push(json!({"upper_levels": ul}));
        menu.push(json!({"upper_levels": ul, "prepopulate": true}));
    }
    menu.push(json!({"prepopulate": true}));
    menu.push(json!({"rollback": true}));
    // no cache at all: every page and every leaf is fetched whenever it is needed
    menu.push(json!({"page_cache": 0, "leaf_cache": 0, "upper_levels": 0}));
    let mut cfgs: Vec<Value> = menu.clone();
    if thorough {
        for i in 1..menu.len() {
            for j in i + 1..menu.len() {
                let mut m = menu[i].clone();
                for (k, v) in menu[j].as_object().unwrap() {
                    m[k] = v.clone();
                }
                cfgs.push(m);
            }
        }
    }
    // fixed history set: spans several workers' ranges, the shared root page, elision, overflow
    let hist_set: Vec<(&str, Vec<&str>, Vec<Value>)> = vec![
        ("empty", vec!["U2"], vec![json!({"cw": [w(0, 1), w(3, 1), w(7, 1), w(13, 1)]}), json!({"cw": [del(0), w(5, 2), json!([7, "rw", 3])]}), json!({"reopen": {}}), json!({"cw": [w(1, 1), del(13)]})]),
        ("cl12x19", vec!["CL12:17-23"], vec![json!({"cw": [w(2, 1), w(3, 1)]}), json!({"cw": [del(0), del(1), del(2)]}), json!({"cw": [w(0, 1)]}), json!({"reopen": {}}), json!({"cw": [w(1, 1), w(2, 5)]})]),
        ("cl18x21", vec!["CL18:19-24"], vec![json!({"cw": [del(0), del(1)]}), json!({"cw": [w(0, 1), w(4, 1)]}), json!({"cw": [del(2)]}), json!({"reopen": {}}), json!({"cw": [w(1, 1)]})]),
        ("leaf", vec!["seed:0,2,5", "U4"], vec![json!({"cw": [w(0, 70000), w(3, 1333)]}), json!({"cw": [del(0), json!([1, "rd"])]}), json!({"reopen": {}}), json!({"cw": [w(4, 1300), w(5, 1300), w(6, 1300)]})]),
        ("bulk", vec!["seed:0,300,700,1100,1499", "U4"], vec![json!({"cw": [del(0), del(2), w(5, 9), w(8, 1333)]}), json!({"cw": [w(1, 1), del(4)]}), json!({"reopen": {}}), json!({"cw": [w(0, 3)]})]),
        ("branch", vec!["seed:0,1,299,300,598,599"], vec![json!({"cw": [del(0), del(1), del(2)]}), json!({"cw": [w(0, 1300), w(3, 1333)]}), json!({"reopen": {}}), json!({"cw": [del(5)]})]),
        // volume: batches of hundreds of keys (reads, writes, deletes) over 1500 random keys, every
        // key audited
        ("bulk", vec!["seed:all"], vec![json!({"cw": [[0, "wn", 700]]}), json!({"cw": [[100, "rn", 300], [800, "dn", 100], [1000, "wn", 200]]}), json!({"reopen": {}}), json!({"cw": [[0, "dn", 400]]})]),
        // sessions on chains of uncommitted overlays that changed the root page (under warm-up the
        // warm-up worker, under several workers a worker without keys, must find the ancestors'
        // root page, not the committed one), the last one witnessed; committed in order
        ("empty", vec!["U2"], vec![
            json!({"c": [w(0, 1), w(3, 1)]}),
            json!({"ov": {"id": 0, "on": [], "b": [w(7, 1), w(13, 1)]}}),
            json!({"ov": {"id": 1, "on": [0], "b": [w(5, 2), del(0)]}}),
            json!({"ov": {"id": 2, "on": [1, 0], "b": [w(1, 1), del(7)], "w": true}}),
            json!({"ovc": 0}), json!({"ovc": 1}), json!({"ovc": 2}),
            json!({"reopen": {}}),
            json!({"cw": [w(2, 1), del(13)]}),
        ]),
        ("empty", vec!["WRK"], vec![
            json!({"c": [w(0, 1), w(9, 1)]}),
            json!({"ov": {"id": 0, "on": [], "b": [w(3, 1), w(5, 1)]}}),
            json!({"ov": {"id": 1, "on": [0], "b": [w(1, 1)], "w": true}}),
            json!({"ov": {"id": 2, "on": [1, 0], "b": [w(8, 1), del(3)], "w": true}}),
            json!({"ovc": 0}), json!({"ovc": 1}), json!({"ovc": 2}),
            json!({"reopen": {}}),
            json!({"cw": [del(5), w(4, 2)]}),
        ]),
        // coexisting sessions: a session is held open while two others are begun and finished
        // (into overlays) on the same thread, then released; the overlays are committed in order
        // ("Multiple sessions may coexist": no option may turn that into waiting for each other)
        ("empty", vec!["U4"], vec![
            json!({"c": [w(0, 5), w(1, 5)]}),
            json!({"hold": 0}),
            json!({"ov": {"id": 0, "on": [], "b": [w(2, 1)]}}),
            json!({"hold": 1}),
            json!({"ov": {"id": 1, "on": [0], "b": [w(3, 1), del(0)], "w": true}}),
            json!({"release": 0}),
            json!({"release": 1}),
            json!({"ovc": 0}), json!({"ovc": 1}),
            json!({"reopen": {}}),
            json!({"cw": [w(0, 2)]}),
        ]),
        // a two-leaf trie whose terminals span several workers' key ranges; batches around the
        // range boundaries of 3, 5, 6 and 7 workers
        ("empty", vec!["WRK"], vec![json!({"c": [w(0, 1), w(9, 1)]}), json!({"cw": [w(3, 1), w(5, 1), w(6, 1), w(7, 1)]}), json!({"reopen": {}}), json!({"cw": [del(3), w(1, 1), w(4, 2), del(7)]}), json!({"cw": [w(2, 1), del(5), del(6), w(8, 1)]})]),
    ];
    let mut cases = vec![];
    for (ci, cv) in cfgs.iter().enumerate() {
        let mut base = Cfg::default().to_json();
        let ndev = cv.as_object().unwrap().len();
        for (k, v) in cv.as_object().unwrap() {
            base[k] = v.clone();
        }
        let cfg = Cfg::from_json(&base);
        for (seed, uni, ops) in &hist_set {
            if cfg.buckets < 64 && *seed == "bulk" {
                continue;
            }
            let mut ops = ops.clone();
            if cfg.warm_up {
                // warm-up of subsets is driven by the executor for witnessed commits
            }
            for o in ops.iter_mut() {
                if o.get("reopen").is_some() {
                    *o = json!({"reopen": cv});
                }
            }
            if ci == 0 {
                // a reopen that passes another hashtable size and seed (must be ignored), then
                // the rest of the history and the final reopen
                let mut o2 = ops.clone();
                for o in o2.iter_mut() {
                    if o.get("reopen").is_some() {
                        *o = json!({"reopen": {"buckets": 1000, "seed": 99}});
                    }
                }
                cases.push(case(seed, uni.clone(), &cfg, "all", o2, 1, true));
            }
            cases.push(case(seed, uni.clone(), &cfg, "all", ops, ndev.min(2), true));
        }
    }
    // hash-table geometry: small tables, searched bitbox seeds, pages removed and re-inserted
    // around tombstones, cold reopen (the result must not depend on buckets / seed)
    cases.extend(tombstone_family("root", thorough));
    cases.extend(crate::plans::cold_leaf_insert_family("all", if thorough { 3 } else { 2 }));
    cases.extend(bulk_warm_up_family("all"));
    // a batch over 8000 keys on a COLD store (reopened, nothing read back) with minimum caches: one
    // merkle worker has to keep far more seeks than its in-flight page budget; 1, 2 and 64 workers
    for cc in [1usize, 2, 64] {
        let mut cfg = Cfg::default();
        cfg.cc = cc;
        cfg.buckets = 64000;
        // (no cache at all and no pinned levels for 1 and 64 workers: every page and every leaf
        // is fetched whenever it is needed)
        cfg.page_cache = if cc == 2 { 1 } else { 0 };
        cfg.leaf_cache = if cc == 2 { 1 } else { 0 };
        cfg.upper_levels = if cc == 2 { 2 } else { 0 };
        let ops = vec![json!({"reopen": {"cold": true}}), json!({"c": [[0, "wn", 8000]]}), json!({"reopen": {"cold": true}}), json!({"c": [[0, "dn", 7000]]})];
        let mut cse = case("big8k", vec!["seed:0,1,4000,7998,7999"], &cfg, "all", ops, 3, true);
        cse["universe"] = json!(["seed:all"]);
        cse["audit"] = json!("root");
        cse["quiet"] = json!(true);
        cases.push(cse);
    }
    cases.extend(crate::schedx::worker_schedule_cases(thorough));
    add_quiet(&mut cases, 1);
    sort_by_bound(&mut cases);
    let mut p = Plan::new(
        cases,
        "histx: deviation-bounded enumeration of the option space around the default configuration: every configuration with ≤1 (thorough ≤2) option moved to another menu value {commit_concurrency 2,3,5,6,7,16,64,65; warm_up; hasher ∈ {Sha2, Blake3 with flipped kind labels, Blake3 with the kind in the last bit} (a switchable hasher used by store, reference trie, proof checks and decoder alike); page-pool buffers full of 0xA5 / 0x5A; adversarial device (the I/O workers deliver the completions of a burst newest first); forgetful leaf cache (leaves with an odd / an even page number are never found; every second lookup misses); page cache 0/1 MiB; leaf cache 0/1 MiB; io_workers 2,3; hashtable_buckets 1000 (not a power of two), 65536; another bitbox seed; page_cache_upper_levels 0,1,3 with and without prepopulation; rollback on; no cache at all (page cache 0, leaf cache 0, no pinned levels)} × a fixed set of 11 multi-commit histories (two with sessions on chains of uncommitted overlays that changed the root page — warmed up when warm-up is on —, one with coexisting sessions: two sessions held open while others are begun and finished on the same thread; one of them with batches of 700 / 600 / 400 keys over 1500 random keys, every key audited) that span several workers' key ranges (one of them a two-leaf trie whose terminals straddle the range boundaries of 3, 5, 6 and 7 workers), plus the tombstone family (16/32-bucket tables × searched bitbox seeds, pages removed and re-inserted, cold reopen), witnessed batches of 650–1300 warmed-up keys with 1 and 2 workers, one commit right after a cold reopen mixing reads / rewrites / deletes in the first of two value leaves with inserts of new keys elsewhere (leaf cache 0 / 4 MiB, rollback off: some leaves cached by the session's reads, the others fetched by the leaf stage), batches over 8000 keys on a cold store with minimum caches and 1 / 2 / 64 workers (far more seeks than one worker's in-flight page budget), the shared root page, the elision threshold from both sides (19- and 21-key clusters), overflow values, leaf and branch splits/merges, each with a mid-history reopen; every commit is witnessed; oracle: roots, values, proofs for every universe key, witness verification and update replay all equal the reference model (hence equal across configurations). Thread interleavings of the internal workers: every schedule with ≤2 (thorough: all) preemptions of the three merkle update workers of one witnessed commit (worker start, publish child-page roots, hand back the write pass, root-page phase) under the controlled scheduler, two batches (updates / deletes incl. a root-page leaf). Also ALL schedules (a few hundred per batch) of the three beatree leaf-stage workers of one commit whose ranges are three consecutive leaves that all fall below the merge threshold (three batches: two of three values deleted / values shrunk and last leaf deleted / middle leaf deleted), i.e. of the extend-range protocol between neighbouring workers (poll left neighbour, send request, wait for response, wait for left neighbour to conclude, join in completion order): after every schedule the values, root and proofs equal the model and the directory decodes (independent decoder) to exactly the model with every page accounted for. And the branch stage: seed with two bottom branch nodes, one commit deleting 420–440 consecutive keys (≈ 140 leaves) so that the first node falls below the merge threshold and its worker requests nodes from its right neighbour, with three leaf-stage workers running under the scheduler as well (2 batches; every schedule with 0 preemptions quick, ≤1 and a capped ≤2 thorough).",
    );
    p.budget_s = if thorough { 1700 } else { 55 };
    p.assumptions = vec!["thread interleavings of the internal workers are those the OS scheduler produced in these runs plus the controlled schedules of the schedx engine (see C15 evidence); sequentially-consistent interleavings only".into()];
    p
}

/// Tiny hash tables with heavy collisions and tombstones: `k` key pairs (one depth-1 merkle page
/// each) are inserted, then every single pair / every two pairs are deleted (their pages are
/// cleared: tombstones in the middle of other pages' probe chains), then the store is reopened
/// (cold) and audited. 12 (thorough 32) plain bitbox seeds plus 6 (16) adversarial ones found by search (two pages with equal tag and equal first bucket ⇒ guaranteed mis-probes) × {16, 32} buckets.
/// Bitbox seeds under which two of the pages {root, [0], …, [k-1]} get the same meta-map tag and
/// the same first bucket in a table of `buckets` buckets: the page inserted second then sits
/// behind a *possible hit* on its probe path (a mis-probe on every cold lookup).
pub fn misprobe_seeds(buckets: u32, k: u64, want: usize) -> Vec<u32> {
    let mut ids = vec![crate::imgdec::page_id_bytes(&[])];
    for i in 0..k {
        ids.push(crate::imgdec::page_id_bytes(&[i as u8]));
    }
    let mut out = vec![];
    for seed in 0..200_000u32 {
        let sb = crate::driver::seed_bytes(seed);
        let hs: Vec<u64> = ids.iter().map(|id| crate::imgdec::page_hash(id, &sb)).collect();
        let mut hit = false;
        for a in 0..hs.len() {
            for b in a + 1..hs.len() {
                if hs[a] >> 57 == hs[b] >> 57 && hs[a] % buckets as u64 == hs[b] % buckets as u64 {
                    hit = true;
                }
            }
        }
        if hit {
            out.push(seed);
            if out.len() == want {
                break;
            }
        }
    }
    out
}

pub fn tombstone_family(audit: &str, thorough: bool) -> Vec<Value> {
    let mut cases = vec![];
    let k = 9u64;
    let uni = format!("PAIRS:{k}");
    for buckets in [16u32, 32] {
        let mut seeds: Vec<u32> = (0..(if thorough { 32u32 } else { 12u32 })).collect();
        // adversarial seeds: tag + first-bucket collisions between two of the pages
        seeds.extend(misprobe_seeds(buckets, k, if thorough { 16 } else { 6 }));
        for seed in seeds {
            let mut cfg = Cfg::default();
            cfg.buckets = buckets;
            cfg.seed = seed as u32;
            cfg.page_cache = 1;
            let fill: Vec<Value> = (0..2 * k).map(|i| w(i, 1)).collect();
            let mut dels: Vec<Vec<u64>> = (0..k).map(|i| vec![i]).collect();
            if thorough {
                for i in 0..k {
                    for j in i + 1..k {
                        dels.push(vec![i, j]);
                    }
                }
            } else {
                for i in 0..k - 1 {
                    dels.push(vec![i, i + 1]);
                }
            }
            for d in dels {
                let db: Vec<Value> = d.iter().flat_map(|i| vec![del(2 * i), del(2 * i + 1)]).collect();
                let back: Vec<Value> = d.iter().take(1).flat_map(|i| vec![w(2 * i, 2), w(2 * i + 1, 2)]).collect();
                cases.push(case("empty", vec![&uni], &cfg, audit, vec![c(fill.clone()), c(db), json!({"reopen": {}}), c(back), json!({"reopen": {}})], 3, false));
            }
        }
    }
    cases
}

/// Sparse-cluster promotion family (C02, C05, C13): seeds `sp18` / `sp19` hold 18 / 19 leaves under
/// one 12-bit prefix (depth-2 page elided, rebuilt from the value store whenever it is touched) with
/// a lone leaf L high in that page; the universe SP adds keys that turn L into a chain with
/// terminator siblings (inside the page, and reaching the page below), fillers that take the
/// cluster across the 20-leaf threshold in the same or a later commit, and deletions that take it
/// back. All histories of `d` commits with at most `b` key actions, with the page pool handing
/// out buffers full of 0xA5 / 0x5A and as it comes.
pub fn sparse_cluster_promotion_family(audit: &str, thorough: bool) -> Vec<Value> {
    let mut out = vec![];
    let a = vec![json!(["w", 1]), json!(["d"])];
    for seed in ["sp19", "sp18"] {
        for poison in [0xA5u8, 0x5A, 0] {
            let mut cfg = Cfg::default();
            cfg.buckets = 64;
            cfg.pool_poison = poison;
            let b = if thorough { 3 } else if seed == "sp19" && poison != 0 { 2 } else { 1 };
            let aud = audit.to_string();
            let cfg2 = cfg.clone();
            let mk = move |ops: Vec<Value>, b: usize| case(seed, vec!["SP"], &cfg2, &aud, ops, b, true);
            out.extend(enum_commit_histories(3, 8, b, &a, &mk));
        }
    }
    // the threshold crossed and the chain created in ONE commit from 18 leaves, then every single
    // action on the chain (three deviations; part of the quick tier explicitly)
    for poison in [0xA5u8, 0x5A] {
        let mut cfg = Cfg::default();
        cfg.buckets = 64;
        cfg.pool_poison = poison;
        for chain in [1u64, 2, 3] {
            for filler in [4u64, 5] {
                for (k, act) in [(0u64, "w"), (0, "d"), (chain, "w"), (chain, "d"), (filler, "d")] {
                    let last = if act == "w" { json!([k, "w", 2]) } else { json!([k, "d"]) };
                    let ops = vec![c(vec![w(chain, 1), w(filler, 1)]), c(vec![last])];
                    out.push(case("sp18", vec!["SP"], &cfg, audit, ops, 3, true));
                }
            }
        }
    }
    out
}

/// Exact-fit leaves (C01, C16): cells of 34 + len bytes whose sum lands on every value from four
/// bytes below to six bytes above the leaf body size (4094), as three max-size-ish cells and as
/// four ~1000-byte cells, alone or followed by two 966-byte cells (so that the leaf is closed by a
/// split rather than by the end of the batch) — written in one commit, with the last / the middle
/// cell inserted by a second commit, and with that cell first written short and then overwritten
/// to its exact size.
pub fn exact_fit_leaf_family(audit: &str) -> Vec<Value> {
    let mut out = vec![];
    let mut cfg = Cfg::default();
    cfg.buckets = 64;
    let uni = vec!["CL0:0-6"];
    for total in 4090usize..=4100 {
        for shape in 0..2 {
            let mut sizes: Vec<usize> = if shape == 0 { vec![1332, 1332] } else { vec![1000, 1000, 1000] };
            let used: usize = sizes.iter().map(|l| l + 34).sum();
            let last = total - used - 34;
            if last > 1332 {
                continue;
            }
            sizes.push(last);
            for trailing in [false, true] {
                let mut all = sizes.clone();
                if trailing {
                    all.extend([966, 966]);
                }
                let n_exact = sizes.len();
                let items: Vec<Value> = all.iter().enumerate().map(|(k, l)| w(k as u64, *l as u64)).collect();
                // one commit
                out.push(case("empty", uni.clone(), &cfg, audit, vec![c(items.clone()), c(vec![w(0, 7)])], 1, true));
                // the exact cell (last of the leaf / the middle one) inserted by a second commit
                for late in [n_exact - 1, 1] {
                    let first: Vec<Value> = items.iter().enumerate().filter(|(k, _)| *k != late).map(|(_, v)| v.clone()).collect();
                    out.push(case("empty", uni.clone(), &cfg, audit, vec![c(first), c(vec![items[late].clone()]), c(vec![del(0)])], 2, true));
                }
                // written short first, then overwritten to the exact size
                let mut short = items.clone();
                short[n_exact - 1] = w((n_exact - 1) as u64, 5);
                out.push(case("empty", uni.clone(), &cfg, audit, vec![c(short), c(vec![items[n_exact - 1].clone()]), c(vec![w(1, 9)])], 2, true));
            }
        }
    }
    out
}

/// Overflow-value size boundaries (C01, C16, C19): one key written with size s1, overwritten with
/// s2, deleted, for every ordered pair of sizes around every boundary of the overflow format —
/// inline / overflow (1332 | 1333), one / two / three pages (4092 | 4093, 4096 | 4097, 8184 | 8185),
/// all page numbers in the cell / one in a page (15 pages = 61380 | 61381), and the first size that
/// needs an extra page because of the page numbers stored in pages (16 pages hold 65468 | 65469;
/// 65472 | 65473) — with a reopen at the end; a neighbour key with a small value shares the leaf.
pub fn overflow_boundary_family(audit: &str, thorough: bool) -> Vec<Value> {
    let mut out = vec![];
    let mut cfg = Cfg::default();
    cfg.buckets = 64;
    let sizes: Vec<u64> = vec![1332, 1333, 4091, 4092, 4093, 4096, 4097, 8184, 8185, 61380, 61381, 65468, 65469, 65472, 65473];
    for (i, s1) in sizes.iter().enumerate() {
        for (j, s2) in sizes.iter().enumerate() {
            // quick tier: every size first and second, not every pair (a band around the diagonal
            // plus the first row and column)
            if !thorough && !(i == 0 || j == 0 || (i as i64 - j as i64).abs() <= 1) {
                continue;
            }
            let ops = vec![c(vec![w(0, *s1), w(1, 5)]), c(vec![w(0, *s2)]), c(vec![del(0)])];
            out.push(case("empty", vec!["U4"], &cfg, audit, ops, 2, true));
        }
    }
    out
}
