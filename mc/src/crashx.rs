//! `crashx`: exhaustive enumeration of crash cuts, unsynced-write loss patterns and I/O fault
//! points over the recorded I/O event trace of real operations.
//!
//! One case = one operation of one history. The history prefix is executed on the real store,
//! the operation is executed with the I/O seam recording, and then — depending on the mode —
//!   c03: every instant of the trace × every subset of in-flight operations is materialised and
//!        reopened with the real `Nomt::open` (process-crash semantics), nested once into recovery;
//!   c04: every instant × every admissible loss pattern of not-yet-fsynced operations (power
//!        loss semantics), nested once into recovery;
//!   c17: the trace is monitored: nothing the pre-image references may be touched before the
//!        switch-over is durable;
//!   c14: (separate cases) the operation is re-executed with a failure injected at one event.

use crate::driver::{self, audit, open_nomt, Act, AuditFlags, Cfg, B3};
use crate::engine::{fnv_str, Engine, Outcome, Plan, Violation};
use crate::histx::{Exec, HistX};
use crate::imgdec;
use crate::refmodel::Model;
use crate::util::{self, DirImage, Key, Scratch, SparseFile, PAGE};
use nomt::verif::io as vio;
use serde_json::{json, Value};
use std::collections::{BTreeMap, BTreeSet, HashSet};
use std::path::PathBuf;

pub struct CrashX {
    hist: HistX,
    scratch: Scratch,
    /// run the traced operation with background tasks executed as late as possible
    lazy: bool,
    /// which parts of the sync pipeline the lazy schedule holds back (`verif::lazy::set_pools`)
    lazy_pools: u8,
    lazy_stats: (u64, u64, u64),
}

impl CrashX {
    pub fn new() -> Self {
        CrashX {
            hist: HistX::new(),
            scratch: Scratch::new("crashx"),
            lazy: false,
            lazy_pools: nomt::verif::lazy::ALL_POOLS,
            lazy_stats: (0, 0, 0),
        }
    }
}

fn viol(fp: &str, msg: String) -> Violation {
    Violation::new(fp, msg)
}

// ---------------------------------------------------------------------------------------------
// Applying events to a directory image

pub fn apply_event(img: &mut DirImage, e: &vio::Event) {
    match &e.kind {
        vio::Kind::Write { off, data } => {
            img.files.entry(e.file.clone()).or_default().write_at(*off, data);
        }
        vio::Kind::Append { data } => {
            let f = img.files.entry(e.file.clone()).or_default();
            let len = f.len;
            f.write_at(len, data);
        }
        vio::Kind::SetLen(l) => {
            img.files.entry(e.file.clone()).or_default().set_len(*l);
        }
        vio::Kind::Create => {
            img.files.insert(e.file.clone(), SparseFile::default());
        }
        vio::Kind::Unlink => {
            img.files.remove(&e.file);
        }
        vio::Kind::Fsync | vio::Kind::FsyncData | vio::Kind::DirSync | vio::Kind::Mark(_) => {}
    }
}

fn is_mutation(e: &vio::Event) -> bool {
    matches!(
        e.kind,
        vio::Kind::Write { .. } | vio::Kind::Append { .. } | vio::Kind::SetLen(_) | vio::Kind::Create | vio::Kind::Unlink
    )
}

fn is_sync(e: &vio::Event) -> bool {
    matches!(e.kind, vio::Kind::Fsync | vio::Kind::FsyncData | vio::Kind::DirSync)
}

fn ev_desc(e: &vio::Event) -> String {
    match &e.kind {
        vio::Kind::Write { off, data } => format!("{}:write@{}+{}", e.file, off, data.len()),
        vio::Kind::Append { data } => format!("{}:append+{}", e.file, data.len()),
        vio::Kind::SetLen(l) => format!("{}:setlen({})", e.file, l),
        vio::Kind::Fsync => format!("{}:fsync", e.file),
        vio::Kind::FsyncData => format!("{}:fdatasync", e.file),
        vio::Kind::Create => format!("{}:create", e.file),
        vio::Kind::Unlink => format!("{}:unlink", e.file),
        vio::Kind::DirSync => "DIR:sync".to_string(),
        vio::Kind::Mark(m) => format!("mark({m})"),
    }
}

pub struct Trace {
    pub events: Vec<vio::Event>,
    /// stamp of the "op_returned" mark (None if the op did not return Ok)
    pub returned: Option<u64>,
    pub max_stamp: u64,
}

impl Trace {
    fn new(events: Vec<vio::Event>) -> Self {
        let returned = events
            .iter()
            .find(|e| matches!(&e.kind, vio::Kind::Mark(m) if m == "op_returned_ok"))
            .map(|e| e.seq);
        let max_stamp = events.iter().map(|e| e.done.unwrap_or(e.seq).max(e.seq).max(e.performed.unwrap_or(0))).max().unwrap_or(0);
        Trace {
            events,
            returned,
            max_stamp,
        }
    }

    fn mark_stamp(&self, name: &str) -> Option<u64> {
        self.events
            .iter()
            .find(|e| matches!(&e.kind, vio::Kind::Mark(m) if m == name))
            .map(|e| e.seq)
    }

    /// completion stamp of the meta fsync (the switch-over becoming durable)
    fn meta_durable(&self) -> Option<u64> {
        self.events
            .iter()
            .find(|e| e.file == "meta" && matches!(e.kind, vio::Kind::Fsync))
            .and_then(|e| e.done)
    }
}

/// Run `f` with the I/O seam recording; returns the trace.
pub fn record<T>(f: impl FnOnce() -> T) -> (T, Trace) {
    vio::enable();
    vio::mark("op_begin");
    let r = f();
    let (events, _) = vio::disable();
    (r, Trace::new(events))
}

// ---------------------------------------------------------------------------------------------
// Image enumeration

/// A candidate crash image: which events are applied (by index), at which instant.
#[derive(Clone, Debug)]
struct Cut {
    t: u64,
    applied: Vec<usize>,
    /// torn write: (event index, keep first half?) applied on top
    torn: Option<(usize, bool)>,
    /// for appends kept only up to a page-aligned length: (event index, bytes kept)
    partial_append: Option<(usize, usize)>,
    desc: String,
}

fn subsets_capped(items: &[usize], cap: usize, capped: &mut u64) -> Vec<Vec<usize>> {
    let n = items.len();
    if n <= cap {
        let mut out = vec![];
        for mask in 0u32..(1u32 << n) {
            out.push((0..n).filter(|i| mask >> i & 1 == 1).map(|i| items[i]).collect());
        }
        out
    } else {
        *capped += 1;
        // none, all, every single one applied, every single one missing, every prefix
        let mut set: BTreeSet<Vec<usize>> = BTreeSet::new();
        set.insert(vec![]);
        set.insert(items.to_vec());
        for i in 0..n {
            set.insert(vec![items[i]]);
            let mut v = items.to_vec();
            v.remove(i);
            set.insert(v);
            set.insert(items[..i].to_vec());
        }
        set.into_iter().collect()
    }
}

/// Process-crash cuts: at instant t everything completed before t is applied; every subset of
/// the operations in flight at t may additionally have reached the file.
fn cuts_process_crash(tr: &Trace, cap: usize, capped: &mut u64) -> Vec<Cut> {
    let muts: Vec<usize> = (0..tr.events.len()).filter(|i| is_mutation(&tr.events[*i])).collect();
    let mut seen: HashSet<Vec<usize>> = HashSet::new();
    let mut cuts = vec![];
    for t in 1..=tr.max_stamp + 1 {
        let mut done: Vec<usize> = muts
            .iter()
            .cloned()
            .filter(|i| tr.events[*i].done.map_or(false, |d| d < t))
            .collect();
        done.sort_by_key(|i| tr.events[*i].done);
        let inflight: Vec<usize> = muts
            .iter()
            .cloned()
            .filter(|i| tr.events[*i].seq < t && !tr.events[*i].done.map_or(false, |d| d < t) && !tr.events[*i].injected)
            .collect();
        for sub in subsets_capped(&inflight, cap, capped) {
            let mut applied = done.clone();
            applied.extend(sub.iter().cloned());
            let mut key = applied.clone();
            key.sort();
            if !seen.insert(key) {
                continue;
            }
            cuts.push(Cut {
                t,
                applied,
                torn: None,
                partial_append: None,
                desc: format!(
                    "t={t}: {} completed, in flight kept {:?} of {:?}",
                    done.len(),
                    sub.iter().map(|i| ev_desc(&tr.events[*i])).collect::<Vec<_>>(),
                    inflight.len()
                ),
            });
        }
    }
    cuts
}

/// Power-loss cuts: an operation is durable at instant t iff a sync of its file (directory for
/// create/unlink) was *submitted after the operation completed* and *completed before t*.
/// Non-durable operations issued before t may or may not have reached the disk: per file, the
/// size-changing operations (set_len, append) survive as a prefix in issue order (an append
/// possibly cut at a page boundary); in-place page writes inside the surviving length survive
/// in any subset (at most one of them torn at the 2 KiB boundary); creates/unlinks survive as a
/// prefix per directory.
fn cuts_power_loss(pre: &DirImage, tr: &Trace, cap: usize, capped: &mut u64, max_per_instant: usize) -> Vec<Cut> {
    let ev = &tr.events;
    let muts: Vec<usize> = (0..ev.len()).filter(|i| is_mutation(&ev[*i]) && !ev[*i].injected).collect();
    let syncs: Vec<usize> = (0..ev.len()).filter(|i| is_sync(&ev[*i]) && !ev[*i].injected).collect();
    let mut seen: HashSet<(Vec<usize>, Option<(usize, bool)>, Option<(usize, usize)>)> = HashSet::new();
    let mut cuts = vec![];
    let zero_ext = std::env::var("MC_ZERO_EXT").is_ok();
    // interesting instants: after every stamp
    for t in 1..=tr.max_stamp + 1 {
        let durable = |i: usize| -> bool {
            let e = &ev[i];
            let Some(d) = e.done else { return false };
            let dir_op = matches!(e.kind, vio::Kind::Create | vio::Kind::Unlink);
            syncs.iter().any(|s| {
                let se = &ev[*s];
                let same = if dir_op { se.file == "DIR" } else { se.file == e.file && !matches!(se.kind, vio::Kind::DirSync) };
                same && se.seq > d && se.done.map_or(false, |sd| sd < t)
            })
        };
        let issued: Vec<usize> = muts.iter().cloned().filter(|i| ev[*i].seq < t).collect();
        let mut base: Vec<usize> = issued.iter().cloned().filter(|i| durable(*i)).collect();
        base.sort_by_key(|i| ev[*i].seq);
        let nondur: Vec<usize> = issued.iter().cloned().filter(|i| !durable(*i)).collect();
        if nondur.is_empty() {
            let mut key = base.clone();
            key.sort();
            if seen.insert((key, None, None)) {
                cuts.push(Cut {
                    t,
                    applied: base.clone(),
                    torn: None,
                    partial_append: None,
                    desc: format!("t={t}: all {} issued operations durable", base.len()),
                });
            }
            continue;
        }
        // group non-durable ops per file (directory ops under "DIR")
        let mut per_file: BTreeMap<String, Vec<usize>> = BTreeMap::new();
        for i in &nondur {
            let e = &ev[*i];
            let g = if matches!(e.kind, vio::Kind::Create | vio::Kind::Unlink) {
                "DIR".to_string()
            } else {
                e.file.clone()
            };
            per_file.entry(g).or_default().push(*i);
        }
        // choices per file: list of (kept ops, torn, partial append)
        type Choice = (Vec<usize>, Option<(usize, bool)>, Option<(usize, usize)>);
        let mut file_choices: Vec<Vec<Choice>> = vec![];
        let grow = |len: u64, e: &vio::Event| -> u64 {
            match &e.kind {
                vio::Kind::SetLen(l) => *l,
                vio::Kind::Append { data } => len + data.len() as u64,
                vio::Kind::Write { off, data } => len.max(*off + data.len() as u64),
                _ => len,
            }
        };
        for (g, ops) in per_file.iter() {
            let mut ops = ops.clone();
            ops.sort_by_key(|i| ev[*i].seq);
            // length of the file after the durable operations
            let mut base_len = pre.files.get(g).map(|f| f.len).unwrap_or(0);
            for i in &base {
                if &ev[*i].file == g {
                    base_len = grow(base_len, &ev[*i]);
                }
            }
            // classify: size-changing (set_len, append, create/unlink, write extending the file
            // as issued) vs in-place page write
            let mut issued_len = base_len;
            let mut sizing: Vec<usize> = vec![];
            let mut inplace: Vec<(usize, u64)> = vec![]; // (event, end offset)
            for i in &ops {
                let e = &ev[*i];
                match &e.kind {
                    vio::Kind::Write { off, data } => {
                        let end = *off + data.len() as u64;
                        if end > issued_len {
                            sizing.push(*i);
                        } else {
                            inplace.push((*i, end));
                        }
                    }
                    _ => sizing.push(*i),
                }
                issued_len = grow(issued_len, e);
            }
            let mut choices: Vec<Choice> = vec![];
            for p in 0..=sizing.len() {
                let kept_sizing = &sizing[..p];
                let mut kept_len = base_len;
                for i in kept_sizing {
                    kept_len = grow(kept_len, &ev[*i]);
                }
                // an in-place write can only survive inside the surviving length, and only if it
                // was issued after the size changes that survive … or before a dropped one
                let eligible: Vec<usize> = inplace.iter().filter(|(_, end)| *end <= kept_len).map(|(i, _)| *i).collect();
                for sub in subsets_capped(&eligible, cap, capped) {
                    let mut kept: Vec<usize> = kept_sizing.to_vec();
                    kept.extend(sub.iter().cloned());
                    kept.sort_by_key(|i| ev[*i].seq);
                    choices.push((kept.clone(), None, None));
                    if !sub.is_empty() && (sub.len() == eligible.len() || sub.len() == 1) {
                        let w = *sub.last().unwrap();
                        if let vio::Kind::Write { data, .. } = &ev[w].kind {
                            if data.len() >= PAGE {
                                choices.push((kept.clone(), Some((w, true)), None));
                                choices.push((kept.clone(), Some((w, false)), None));
                            }
                        }
                    }
                }
                // the last kept extension cut at every page-aligned length
                if p > 0 {
                    let last = sizing[p - 1];
                    let dlen = match &ev[last].kind {
                        vio::Kind::Append { data } => data.len(),
                        vio::Kind::Write { data, .. } => data.len(),
                        _ => 0,
                    };
                    let mut k = PAGE;
                    while k < dlen {
                        let mut kept: Vec<usize> = sizing[..p - 1].to_vec();
                        let mut klen = base_len;
                        for i in &sizing[..p - 1] {
                            klen = grow(klen, &ev[*i]);
                        }
                        kept.extend(inplace.iter().filter(|(_, end)| *end <= klen).map(|(i, _)| *i));
                        kept.sort_by_key(|i| ev[*i].seq);
                        choices.push((kept, None, Some((last, k))));
                        k += PAGE;
                    }
                    // the extension itself survives (the new size was journalled) but none of its
                    // data did: the extended range reads as zeros
                    if dlen > 0 && zero_ext {
                        let mut kept: Vec<usize> = sizing[..p - 1].to_vec();
                        let mut klen = base_len;
                        for i in &sizing[..p - 1] {
                            klen = grow(klen, &ev[*i]);
                        }
                        kept.extend(inplace.iter().filter(|(_, end)| *end <= klen).map(|(i, _)| *i));
                        kept.sort_by_key(|i| ev[*i].seq);
                        choices.push((kept, None, Some((last, usize::MAX))));
                    }
                }
            }
            file_choices.push(choices);
        }
        // combine across files
        let total: usize = file_choices.iter().map(|c| c.len()).product();
        let mut combos: Vec<Vec<usize>> = vec![]; // index per file
        if total <= max_per_instant {
            let mut idx = vec![0usize; file_choices.len()];
            loop {
                combos.push(idx.clone());
                let mut k = 0;
                loop {
                    if k == idx.len() {
                        break;
                    }
                    idx[k] += 1;
                    if idx[k] < file_choices[k].len() {
                        break;
                    }
                    idx[k] = 0;
                    k += 1;
                }
                if k == idx.len() {
                    break;
                }
            }
        } else {
            *capped += 1;
            // all-lost (choice 0 = empty prefix, empty subset) and all-kept (last full choice),
            // then every single-file deviation from both
            let lost: Vec<usize> = vec![0; file_choices.len()];
            let kept: Vec<usize> = file_choices
                .iter()
                .map(|c| {
                    // the choice keeping the most operations
                    c.iter().enumerate().max_by_key(|(_, ch)| (ch.0.len(), ch.1.is_none() as u8, ch.2.is_none() as u8)).map(|(i, _)| i).unwrap()
                })
                .collect();
            combos.push(lost.clone());
            combos.push(kept.clone());
            for f in 0..file_choices.len() {
                for c in 0..file_choices[f].len() {
                    let mut a = lost.clone();
                    a[f] = c;
                    combos.push(a);
                    let mut b = kept.clone();
                    b[f] = c;
                    combos.push(b);
                }
            }
        }
        for combo in combos {
            let mut applied = base.clone();
            let mut torn = None;
            let mut partial = None;
            for (f, c) in combo.iter().enumerate() {
                let ch = &file_choices[f][*c];
                applied.extend(ch.0.iter().cloned());
                if ch.1.is_some() {
                    torn = ch.1;
                }
                if ch.2.is_some() {
                    partial = ch.2;
                }
            }
            // a file whose creation did not survive cannot hold anything issued after it
            let lost_creates: Vec<(String, u64)> = issued
                .iter()
                .filter(|i| matches!(ev[**i].kind, vio::Kind::Create) && !applied.contains(i))
                .map(|i| (ev[*i].file.clone(), ev[*i].seq))
                .collect();
            if !lost_creates.is_empty() {
                applied.retain(|i| !lost_creates.iter().any(|(f, s)| &ev[*i].file == f && ev[*i].seq > *s));
                if let Some((ti, _)) = torn {
                    if lost_creates.iter().any(|(f, _)| &ev[ti].file == f) {
                        torn = None;
                    }
                }
                if let Some((pi, _)) = partial {
                    if lost_creates.iter().any(|(f, _)| &ev[pi].file == f) {
                        partial = None;
                    }
                }
            }
            applied.sort_by_key(|i| ev[*i].seq);
            let mut key = applied.clone();
            key.sort();
            if !seen.insert((key, torn, partial)) {
                continue;
            }
            let lost: Vec<String> = nondur.iter().filter(|i| !applied.contains(i)).map(|i| ev_desc(&ev[*i])).collect();
            cuts.push(Cut {
                t,
                applied,
                torn,
                partial_append: partial,
                desc: format!("t={t}: power loss; lost {:?}{}{}", lost,
                    torn.map(|(i, h)| format!("; torn {} ({} half kept)", ev_desc(&ev[i]), if h { "first" } else { "second" })).unwrap_or_default(),
                    partial.map(|(i, k)| if k == usize::MAX { format!("; {} kept as a zero-filled extension", ev_desc(&ev[i])) } else { format!("; {} cut at {} bytes", ev_desc(&ev[i]), k) }).unwrap_or_default()),
            });
        }
    }
    cuts
}

fn build_image(pre: &DirImage, tr: &Trace, cut: &Cut) -> DirImage {
    let mut img = pre.clone();
    for i in &cut.applied {
        apply_event(&mut img, &tr.events[*i]);
    }
    if let Some((i, k)) = cut.partial_append {
        match &tr.events[i].kind {
            vio::Kind::Append { data } => {
                let f = img.files.entry(tr.events[i].file.clone()).or_default();
                let len = f.len;
                if k == usize::MAX {
                    f.set_len(len + data.len() as u64);
                } else {
                    f.write_at(len, &data[..k]);
                }
            }
            vio::Kind::Write { off, data } => {
                let f = img.files.entry(tr.events[i].file.clone()).or_default();
                if k == usize::MAX {
                    let l = f.len.max(*off + data.len() as u64);
                    f.set_len(l);
                } else {
                    f.write_at(*off, &data[..k]);
                }
            }
            _ => {}
        }
    }
    if let Some((i, first_half)) = cut.torn {
        // the write was applied above in full; revert the other half to the pre-write content
        if let vio::Kind::Write { off, data } = &tr.events[i].kind {
            // rebuild: image without this write, then apply only one half
            let mut without = pre.clone();
            for j in &cut.applied {
                if *j != i {
                    apply_event(&mut without, &tr.events[*j]);
                }
            }
            let half = data.len() / 2;
            let f = without.files.entry(tr.events[i].file.clone()).or_default();
            if first_half {
                f.write_at(*off, &data[..half]);
            } else {
                f.write_at(*off + half as u64, &data[half..]);
            }
            return without;
        }
    }
    img
}

// ---------------------------------------------------------------------------------------------
// Oracle on a recovered image

struct Sides<'a> {
    old: &'a Model,
    new: Option<&'a Model>,
    /// instant from which only the new side is acceptable
    new_required_from: Option<u64>,
}

struct ImageCheck<'a> {
    cfg: &'a Cfg,
    uni: &'a [Key],
    dir: PathBuf,
    nested_dir: PathBuf,
    follow_up: bool,
    nested: Option<&'a str>, // "c03" | "c04"
    decode: bool,
    /// also compare hash_table_utilization() of the recovered handle with the decoded image
    occupancy: bool,
    /// reopen once more right after the follow-up commit
    reopen_after_follow_up: bool,
    /// run the follow-up commit BEFORE anything is read from the recovered store (the side is
    /// taken from sync_seqn alone), so that the first operation after recovery meets cold caches;
    /// the audit that follows still compares every key with the chosen side + the follow-up batch
    cold_follow_up: bool,
}

fn side_audit(n: &nomt::Nomt<B3>, sides: &Sides, uni: &[Key], t: u64, what: &str) -> Result<Model, Violation> {
    side_audit_opt(n, sides, uni, t, what, true)
}

fn side_audit_opt(n: &nomt::Nomt<B3>, sides: &Sides, uni: &[Key], t: u64, what: &str, read_back: bool) -> Result<Model, Violation> {
    let seqn = n.sync_seqn();
    let chosen: &Model = if seqn == sides.old.seqn {
        if let Some(req) = sides.new_required_from {
            if t > req && sides.new.is_some() {
                return Err(viol(
                    "acknowledged-lost",
                    format!("{what}: the operation had returned success before this instant, but the reopened store shows the OLD state (seqn {seqn})"),
                ));
            }
        }
        sides.old
    } else if sides.new.map_or(false, |m| m.seqn == seqn) {
        sides.new.unwrap()
    } else {
        return Err(viol(
            "seqn-neither",
            format!("{what}: reopened store has sync_seqn {seqn}, neither old {} nor new {:?}", sides.old.seqn, sides.new.map(|m| m.seqn)),
        ));
    };
    if !read_back {
        return Ok(chosen.clone());
    }
    audit::<B3>(n, chosen, uni, AuditFlags::ALL).map_err(|m| {
        viol(
            "mixed-state",
            format!("{what}: reopened store has seqn {seqn} ({} side) but: {m}", if seqn == sides.old.seqn { "old" } else { "new" }),
        )
    })?;
    Ok(chosen.clone())
}

fn check_image(ic: &ImageCheck, img: &DirImage, sides: &Sides, t: u64, what: &str, out: &mut Outcome, depth: usize, cap: usize, capped: &mut u64) -> Result<(), Violation> {
    // a directory of its own for every image: a store poisoned by a failed follow-up commit may
    // still have background work in flight after its handle is dropped, and must never share
    // files with the next image
    static IMAGE_NO: std::sync::atomic::AtomicU64 = std::sync::atomic::AtomicU64::new(0);
    struct RmDir(std::path::PathBuf);
    impl Drop for RmDir {
        fn drop(&mut self) {
            let _ = std::fs::remove_dir_all(&self.0);
        }
    }
    let dir = RmDir(ic.dir.with_extension(format!("{}", IMAGE_NO.fetch_add(1, std::sync::atomic::Ordering::Relaxed))));
    let dir = &dir.0;
    img.materialize(dir).map_err(|e| viol("machinery", format!("materialize: {e}")))?;
    out.transitions += 1;
    // open with recording, for nested cuts
    let (opened, rtrace) = record(|| {
        std::panic::catch_unwind(std::panic::AssertUnwindSafe(|| open_nomt::<B3>(dir, ic.cfg)))
    });
    let mut n = match opened {
        Err(_) => {
            return Err(viol(
                "recovery-panic",
                format!("{what}: Nomt::open panicked on the crash image (at {})", crate::last_panic_location()),
            ))
        }
        Ok(Err(e)) => return Err(viol("recovery-failed", format!("{what}: Nomt::open failed on the crash image: {e:#}"))),
        Ok(Ok(n)) => n,
    };
    // (not for the tiny full tables, whose follow-up commit may legitimately be refused)
    let cold = ic.cold_follow_up && ic.follow_up && ic.cfg.buckets > 8;
    let mut model = side_audit_opt(&n, sides, ic.uni, t, what, !cold)?;
    out.states.push(fnv_str(&format!("{}:{}", model.seqn, what.len())));
    if rtrace.events.iter().any(|e| e.file == "ht" && is_mutation(e)) {
        out.goals.push("wal-replayed");
    }
    if rtrace.events.iter().any(|e| e.file == "wal" && matches!(e.kind, vio::Kind::SetLen(0))) {
        out.goals.push("wal-truncated-in-recovery");
    }
    if rtrace.events.iter().any(|e| e.file.starts_with("rollback") && matches!(e.kind, vio::Kind::Unlink)) {
        out.goals.push("segment-removed-in-recovery");
    }
    if ic.decode {
        // decode the recovered, quiescent image
        let rec = DirImage::snapshot(dir).map_err(|e| viol("machinery", format!("snapshot: {e}")))?;
        let opts = imgdec::CheckOpts {
            structure: true,
            kv_equals_model: true,
            merkle: true,
            leaks: false,
        };
        let rep = imgdec::check_image::<B3>(&rec, &model.kv, &opts).map_err(|m| viol("recovered-image", format!("{what}: recovered image does not decode to the state: {m}")))?;
        if ic.occupancy {
            let occ = n.hash_table_utilization().occupied;
            if occ != rep.full_buckets || occ != rep.merkle.reachable_stored {
                return Err(viol(
                    "occupancy-after-recovery",
                    format!("{what}: after recovery hash_table_utilization().occupied = {occ}, full buckets on disk = {}, stored pages reachable from the root = {}", rep.full_buckets, rep.merkle.reachable_stored),
                ));
            }
        }
    }
    if ic.follow_up {
        // one follow-up commit and (if enabled) a rollback, audited against the model continued
        let k0 = ic.uni[0];
        let k1 = ic.uni[ic.uni.len() - 1];
        let batch = vec![(k0, Act::Write(Some(util::value(424242 + t, 33)))), (k1, Act::Write(None))];
        let mut batch = batch;
        batch.sort_by(|a, b| a.0.cmp(&b.0));
        batch.dedup_by(|a, b| a.0 == b.0);
        let session = n.begin_session(nomt::SessionParams::default());
        let actuals = driver::Db::<B3>::actuals(&session, &batch, &model.kv).map_err(|m| viol("follow-up", format!("{what}: {m}")))?;
        let fin = session.finish(actuals).map_err(|e| viol("follow-up", format!("{what}: follow-up finish failed: {e:#}")))?;
        match fin.commit(&n) {
            Ok(()) => {}
            // a hash table that the history keeps exactly full may legitimately refuse the
            // follow-up batch; nothing more can be asked of this handle afterwards
            Err(e) if ic.cfg.buckets <= 8 && format!("{e:#}").contains("exhaustion") => return Ok(()),
            Err(e) => return Err(viol("follow-up", format!("{what}: follow-up commit failed: {e:#}"))),
        }
        model.commit(&driver::writes_of(&batch));
        audit::<B3>(&n, &model, ic.uni, AuditFlags::ALL).map_err(|m| viol("follow-up", format!("{what}: after a follow-up commit: {m}")))?;
        // the follow-up commit must leave a directory that opens again (before a rollback tidies
        // the log): a record appended behind a stale one only shows at the NEXT open
        // (process-crash images only; the power-loss enumeration is ten times larger)
        if ic.reopen_after_follow_up {
        drop(n);
        n = match std::panic::catch_unwind(std::panic::AssertUnwindSafe(|| driver::open_nomt_retry::<B3>(dir, ic.cfg, 10))) {
            Err(_) => return Err(viol("reopen-after-follow-up", format!("{what}: after recovery and a follow-up commit, Nomt::open panicked (at {})", crate::last_panic_location()))),
            Ok(Err(e)) => return Err(viol("reopen-after-follow-up", format!("{what}: after recovery and a follow-up commit, the directory does not open again: {e:#}"))),
            Ok(Ok(n2)) => n2,
        };
        audit::<B3>(&n, &model, ic.uni, AuditFlags::ALL).map_err(|m| viol("reopen-after-follow-up", format!("{what}: after recovery, a follow-up commit and another reopen: {m}")))?;
        }
        if ic.cfg.rollback && model.can_serve(1) {
            match n.rollback(1) {
                Ok(()) => {
                    model.rollback(1);
                    audit::<B3>(&n, &model, ic.uni, AuditFlags::ALL).map_err(|m| viol("follow-up", format!("{what}: after a follow-up rollback(1): {m}")))?;
                }
                Err(e) => {
                    if model.must_serve(1) {
                        return Err(viol("follow-up", format!("{what}: follow-up rollback(1) failed: {e:#}")));
                    }
                }
            }
        }
    }
    drop(n);
    // nested: crash during the recovery just performed
    if depth == 0 {
        if let Some(mode) = ic.nested {
            if rtrace.events.iter().any(|e| is_mutation(e)) {
                let cuts = if mode == "c03" {
                    cuts_process_crash(&rtrace, cap, capped)
                } else {
                    cuts_power_loss(img, &rtrace, cap, capped, 24)
                };
                let nested_ic = ImageCheck {
                    cfg: ic.cfg,
                    uni: ic.uni,
                    dir: ic.nested_dir.clone(),
                    nested_dir: ic.nested_dir.clone(),
                    follow_up: false,
                    cold_follow_up: false,
                    nested: None,
                    decode: ic.decode,
                    occupancy: ic.occupancy,
                    reopen_after_follow_up: false,
                };
                // recovery does not change the logical state: both sides stay acceptable, and
                // "new required" carries over.
                for cut in cuts {
                    // skip the complete cut (= the recovery already checked above)
                    let nimg = build_image(img, &rtrace, &cut);
                    out.goals.push("nested-recovery-cut");
                    check_image(&nested_ic, &nimg, sides, t, &format!("{what} ⟶ crash during recovery [{}]", cut.desc), out, 1, cap, capped)?;
                }
            }
        }
    }
    Ok(())
}

// ---------------------------------------------------------------------------------------------
// C17 monitor

fn c17_monitor(pre: &DirImage, tr: &Trace) -> Result<u64, Violation> {
    let meta = imgdec::decode_meta(pre).map_err(|e| viol("machinery", e))?;
    let vals = imgdec::decode_values::<B3>(pre, &meta).map_err(|e| viol("machinery", format!("pre-image does not decode: {e}")))?;
    let ln_live: BTreeSet<u32> = vals.ln_used.keys().cloned().chain(vals.ln_free.list_pages.iter().cloned()).collect();
    let bbn_live: BTreeSet<u32> = vals.bbn_used.iter().cloned().chain(vals.bbn_free.list_pages.iter().cloned()).collect();
    let segs = imgdec::decode_segments(pre).map_err(|e| viol("machinery", e))?;
    let live_recs: Vec<&imgdec::SegRecord> = segs.iter().filter(|r| meta.rb_start != 0 && r.id >= meta.rb_start && r.id <= meta.rb_end).collect();
    let durable_at = tr.meta_durable().unwrap_or(u64::MAX);
    let mut checked = 0u64;
    for e in &tr.events {
        if !is_mutation(e) || e.seq >= durable_at {
            continue;
        }
        checked += 1;
        let bad = |why: String| -> Violation {
            viol(
                "live-region-touched",
                format!("{} issued at stamp {} (meta durable at {}): {why}", ev_desc(e), e.seq, if durable_at == u64::MAX { "never".to_string() } else { durable_at.to_string() }),
            )
        };
        match (e.file.as_str(), &e.kind) {
            ("meta", vio::Kind::Write { off, .. }) => {
                if *off != 0 {
                    return Err(bad("meta written at a non-zero offset".into()));
                }
            }
            ("wal", _) => {}
            ("ht", _) => return Err(bad("the hash-table file is modified before the switch-over is durable".into())),
            ("ln", vio::Kind::Write { off, data }) | ("bbn", vio::Kind::Write { off, data }) => {
                let (live, bump) = if e.file == "ln" { (&ln_live, meta.ln_bump) } else { (&bbn_live, meta.bbn_bump) };
                let first = (*off / PAGE as u64) as u32;
                let last = ((*off + data.len() as u64 - 1) / PAGE as u64) as u32;
                for pn in first..=last {
                    if pn == 0 {
                        return Err(bad("page 0 written".into()));
                    }
                    if pn < bump && live.contains(&pn) {
                        return Err(bad(format!("page {pn} is referenced by the previous state")));
                    }
                }
            }
            ("ln", vio::Kind::SetLen(l)) | ("bbn", vio::Kind::SetLen(l)) => {
                let bump = if e.file == "ln" { meta.ln_bump } else { meta.bbn_bump };
                if *l < bump as u64 * PAGE as u64 {
                    return Err(bad(format!("file truncated to {l} below the previous bump {bump}")));
                }
            }
            (f, vio::Kind::Unlink) if f.starts_with("rollback") => {
                if live_recs.iter().any(|r| r.file == f) {
                    return Err(bad("segment holding live rollback records unlinked".into()));
                }
            }
            (f, vio::Kind::SetLen(l)) if f.starts_with("rollback") => {
                if let Some(r) = live_recs.iter().filter(|r| r.file == f).map(|r| r.end).max() {
                    if *l < r {
                        return Err(bad(format!("segment truncated to {l}, below the end {r} of its live records")));
                    }
                }
            }
            (f, vio::Kind::Write { off, .. }) if f.starts_with("rollback") => {
                if live_recs.iter().any(|r| r.file == f && *off < r.end) {
                    return Err(bad("write inside live rollback records".into()));
                }
            }
            _ => {}
        }
    }
    Ok(checked)
}


// ---------------------------------------------------------------------------------------------
// C04 order monitor: "every piece of data the new state depends on is made durable before the
// single atomic switch-over, and nothing the old state depends on is modified or discarded before
// the switch-over is durable" — decided on the ordered trace itself, with no cap and no image.

fn c04_order_monitor(tr: &Trace) -> Result<u64, Violation> {
    let mut checked = 0u64;
    let syncs: Vec<&vio::Event> = tr.events.iter().filter(|e| is_sync(e)).collect();
    // is `e` covered by a sync of its file (its directory for create / unlink) that was submitted
    // after the issuing code had learnt of e's completion and that completed before `before`?
    let covered = |e: &vio::Event, before: u64| -> Result<(), String> {
        let Some(done) = e.done else { return Err("its completion was never received".into()) };
        let dir_op = matches!(e.kind, vio::Kind::Create | vio::Kind::Unlink);
        let ok = syncs.iter().any(|s| {
            let same = if dir_op { s.file == "DIR" } else { s.file == e.file && matches!(s.kind, vio::Kind::Fsync | vio::Kind::FsyncData) };
            same && s.seq > done && s.done.map_or(false, |d| d < before)
        });
        if ok {
            Ok(())
        } else {
            Err(format!("no {} submitted after its completion (stamp {done}) had completed by then", if dir_op { "directory sync" } else { "fsync of its file" }))
        }
    };
    let meta_write = tr.events.iter().find(|e| e.file == "meta" && matches!(e.kind, vio::Kind::Write { .. }));
    if let Some(m) = meta_write {
        // R1: everything issued before the switch-over record is written is durable by then
        for e in tr.events.iter().filter(|e| is_mutation(e) && e.seq < m.seq && e.file != "meta") {
            checked += 1;
            if let Err(why) = covered(e, m.seq) {
                return Err(viol(
                    "not-durable-before-switch-over",
                    format!("{} (stamp {}) precedes the meta write (stamp {}) but {why}", ev_desc(e), e.seq, m.seq),
                ));
            }
        }
        // R2: nothing else is modified or discarded until the switch-over is durable
        let durable = tr.meta_durable();
        for e in tr.events.iter().filter(|e| is_mutation(e) && e.seq > m.seq && e.file != "meta") {
            checked += 1;
            if durable.map_or(true, |d| e.seq < d) {
                return Err(viol(
                    "modified-before-switch-over-durable",
                    format!("{} (stamp {}) is issued after the meta write (stamp {}) but before the meta fsync has completed ({})", ev_desc(e), e.seq, m.seq, durable.map_or("never".to_string(), |d| format!("stamp {d}"))),
                ));
            }
        }
    }
    // R3 (also during recovery, where there is no meta write): the redo log is collapsed only after
    // every hash-table write issued before it is durable
    for t in tr.events.iter().filter(|e| e.file == "wal" && matches!(e.kind, vio::Kind::SetLen(0))) {
        for e in tr.events.iter().filter(|e| e.file == "ht" && is_mutation(e) && e.seq < t.seq) {
            checked += 1;
            if let Err(why) = covered(e, t.seq) {
                return Err(viol(
                    "wal-collapsed-before-table-durable",
                    format!("{} (stamp {}) precedes the WAL truncation (stamp {}) but {why}", ev_desc(e), e.seq, t.seq),
                ));
            }
        }
    }
    Ok(checked)
}

// ---------------------------------------------------------------------------------------------
// Case execution

impl CrashX {
    /// Run the history prefix, then the target operation under recording.
    /// Returns (executor after the op, pre-image, old model, trace, op result ok?).
    fn run_traced(&mut self, prop: &str, hist: &Value, target: usize) -> Result<(Exec, DirImage, Model, Trace, bool), Violation> {
        let mut ex = self.hist.start(prop, hist);
        ex.open()?;
        let ops = hist["ops"].as_array().unwrap();
        for (i, op) in ops.iter().enumerate().take(target) {
            ex.step(i, op)?;
        }
        let pre = DirImage::snapshot(&ex.dir).map_err(|e| viol("machinery", format!("snapshot: {e}")))?;
        let old = ex.model.clone();
        let op = &ops[target];
        let is_reopen = op.get("reopen").is_some();
        if is_reopen {
            // close outside the trace: only the open is the operation
            ex.n = None;
        }
        let lazy = self.lazy;
        nomt::verif::lazy::set_pools(self.lazy_pools);
        let (r, tr) = record(|| {
            nomt::verif::lazy::enable(lazy);
            let r = ex.step(target, op);
            if r.is_ok() {
                vio::mark("op_returned_ok");
            }
            self.lazy_stats = nomt::verif::lazy::stats();
            nomt::verif::lazy::enable(false);
            r
        });
        let ok = r.is_ok();
        if let Err(v) = r {
            // a model disagreement in the traced operation itself is a finding of the history
            // engine; report it here too
            return Err(v);
        }
        Ok((ex, pre, old, tr, ok))
    }

    fn seam_self_check(pre: &DirImage, tr: &Trace, dir: &std::path::Path) -> Result<(), Violation> {
        let mut img = pre.clone();
        // everything that was actually performed, acknowledged to the issuing code or not
        let mut evs: Vec<&vio::Event> = tr.events.iter().filter(|e| is_mutation(e) && e.performed.is_some()).collect();
        evs.sort_by_key(|e| e.performed);
        for e in evs {
            apply_event(&mut img, e);
        }
        let real = DirImage::snapshot(dir).map_err(|e| viol("machinery", format!("snapshot: {e}")))?;
        let d = img.diff(&real);
        if !d.is_empty() {
            eprintln!("MACHINERY: I/O seam self-check failed (an unhooked file mutation?): {d:?}");
            std::process::exit(2);
        }
        Ok(())
    }

    fn run_cuts(&mut self, prop: &str, case: &Value) -> Outcome {
        let hist = &case["hist"];
        let target = case["target"].as_u64().unwrap() as usize;
        let mode = case["mode"].as_str().unwrap().to_string();
        let cap = case["cap"].as_u64().unwrap_or(5) as usize;
        let nested = case["nested"].as_bool().unwrap_or(true);
        self.lazy = case["lazy"].as_bool().unwrap_or(false);
        self.lazy_pools = case["lazy_pools"].as_u64().map_or(nomt::verif::lazy::ALL_POOLS, |m| m as u8);
        let traced = self.run_traced(prop, hist, target);
        self.lazy = false;
        self.lazy_pools = nomt::verif::lazy::ALL_POOLS;
        nomt::verif::lazy::set_pools(nomt::verif::lazy::ALL_POOLS);
        let (ex, pre, old, tr, _ok) = match traced {
            Ok(x) => x,
            Err(v) => {
                return Outcome {
                    violation: Some(v),
                    nontrivial: true,
                    ..Default::default()
                }
            }
        };
        if std::env::var("MC_TRACE").is_ok() {
            for e in tr.events.iter() {
                eprintln!("TRACE seq={} done={:?} perf={:?} {} [{}] {}", e.seq, e.done, e.performed, ev_desc(e), e.thread, if e.injected { "INJECTED" } else { "" });
            }
            eprintln!("TRACE lazy stats {:?}", self.lazy_stats);
        }
        let new = ex.model.clone();
        let dir = ex.dir.clone();
        let cfg = ex.cfg.clone();
        let uni = ex.uni.clone();
        let mut out = Outcome::default();
        out.nontrivial = tr.events.iter().any(is_mutation);
        if case["lazy"].as_bool().unwrap_or(false) {
            if !nomt::verif::lazy::channel_id_works() {
                out.goals.push("lazy-channel-identity-unavailable");
            }
            if self.lazy_stats.0 > 0 {
                out.goals.push("lazy-task-released-on-demand");
            }
            if self.lazy_stats.1 > 0 {
                out.goals.push("lazy-task-released-on-stall");
            }
            if self.lazy_stats.2 > 0 {
                out.goals.push("lazy-gate-timeout");
            }
        }
        // quiesce and self-check the seam
        let _ = ex.finish(Ok(()));
        if let Err(v) = Self::seam_self_check(&pre, &tr, &dir) {
            out.violation = Some(v);
            return out;
        }
        let mut capped = 0u64;
        let r: Result<(), Violation> = (|| {
            if mode == "c17" {
                let checked = c17_monitor(&pre, &tr)?;
                out.transitions += checked;
                if tr.events.iter().any(|e| e.file == "ln" && matches!(e.kind, vio::Kind::Write { .. })) {
                    out.goals.push("ln-written");
                }
                if tr.events.iter().any(|e| e.file.starts_with("rollback") && matches!(e.kind, vio::Kind::Unlink | vio::Kind::SetLen(_))) {
                    out.goals.push("segment-pruned-or-truncated");
                }
                return Ok(());
            }
            if mode == "c04" || mode == "c04o" {
                let n = c04_order_monitor(&tr)?;
                out.transitions += n;
                if n > 0 {
                    out.goals.push("order-monitor:operations-checked");
                }
                if mode == "c04o" {
                    return Ok(());
                }
            }
            let cuts = if mode == "c03" {
                cuts_process_crash(&tr, cap, &mut capped)
            } else {
                cuts_power_loss(&pre, &tr, cap, &mut capped, case["max_per_instant"].as_u64().unwrap_or(48) as usize)
            };
            let sides = Sides {
                old: &old,
                new: Some(&new),
                new_required_from: tr.returned,
            };
            let ic = ImageCheck {
                cfg: &cfg,
                uni: &uni,
                dir: self.scratch.dir("img"),
                nested_dir: self.scratch.dir("img-nested"),
                follow_up: true,
                cold_follow_up: case["lazy"].as_bool().unwrap_or(false),
                nested: if nested { Some(if mode == "c03" { "c03" } else { "c04" }) } else { None },
                decode: case["decode"].as_bool().unwrap_or(mode == "c03"),
                occupancy: case["occupancy"].as_bool().unwrap_or(false),
                reopen_after_follow_up: mode == "c03",
            };
            // an operation with very many file operations may be given a stride: every s-th cut
            // (plus the last three) — reported as a goal, the evidence's `exhaustive` then refers
            // to the thinned set
            let stride = case["stride"].as_u64().unwrap_or(1).max(1) as usize;
            let ncuts = cuts.len();
            if stride > 1 {
                out.goals.push("cuts-thinned-by-stride");
            }
            for (ci, cut) in cuts.iter().enumerate() {
                if stride > 1 && ci % stride != 0 && ci + 3 < ncuts {
                    continue;
                }
                let img = build_image(&pre, &tr, cut);
                let what = format!("crash cut [{}] of op #{target}", cut.desc);
                check_image(&ic, &img, &sides, cut.t, &what, &mut out, 0, cap, &mut capped)?;
            }
            Ok(())
        })();
        if capped > 0 {
            out.goals.push("subset-cap-hit");
        }
        if tr.mark_stamp("meta_done").is_some() {
            out.goals.push("op-with-meta-swap");
        }
        {
            let has = |pred: &dyn Fn(&vio::Event) -> bool| tr.events.iter().any(|e| pred(e));
            if has(&|e| e.file.starts_with("rollback") && matches!(e.kind, vio::Kind::Create)) {
                out.goals.push("trace:segment-created");
            }
            if has(&|e| e.file.starts_with("rollback") && matches!(e.kind, vio::Kind::Unlink)) {
                out.goals.push("trace:segment-unlinked");
            }
            if has(&|e| e.file.starts_with("rollback") && matches!(e.kind, vio::Kind::SetLen(_)) && e.thread.contains("rollback")) {
                out.goals.push("trace:segment-truncated");
            }
            if has(&|e| e.file == "ln" && matches!(e.kind, vio::Kind::SetLen(_))) {
                out.goals.push("trace:ln-grown");
            }
            if has(&|e| e.file == "bbn" && matches!(e.kind, vio::Kind::Write { .. })) {
                out.goals.push("trace:bbn-written");
            }
            if has(&|e| e.file == "ht" && matches!(e.kind, vio::Kind::Write { .. })) {
                out.goals.push("trace:ht-written");
            }
            if has(&|e| e.file == "wal" && matches!(&e.kind, vio::Kind::Write { data, .. } if data.len() > PAGE)) {
                out.goals.push("trace:wal-multi-page");
            }
            if has(&|e| e.file == "wal" && matches!(&e.kind, vio::Kind::Write { data, .. } if matches!(wal_end_offset(data), Some((end, len)) if end + 1 == len))) {
                out.goals.push("wal-end-tag-at-page-boundary");
            }
        }
        out.sig = fnv_str(&format!("{}:{}:{}", tr.events.len(), out.transitions, out.goals.len()));
        if let Err(v) = r {
            out.violation = Some(v);
        }
        out
    }
}

// ---------------------------------------------------------------------------------------------
// C14: fault injection

fn api_error_fingerprint(fp: &str) -> bool {
    matches!(
        fp,
        "commit-err" | "finish-err" | "rollback-refused" | "reopen-err" | "overlay-commit-refused" | "valid-commit-refused" | "open-err" | "session-read"
    )
}

impl CrashX {
    fn run_faults(&mut self, prop: &str, case: &Value) -> Outcome {
        let hist = &case["hist"];
        let target = case["target"].as_u64().unwrap() as usize;
        let skip = case["skip"].as_u64().unwrap_or(0);
        let mut out = Outcome::default();
        out.nontrivial = true;
        // 1. reference run: which operations does the traced op perform?
        let lazy = case["lazy"].as_bool().unwrap_or(false);
        self.lazy = lazy;
        let traced = self.run_traced(prop, hist, target);
        self.lazy = false;
        let (ex, _pre, old, tr, _) = match traced {
            Ok(x) => x,
            Err(v) => {
                out.violation = Some(v);
                return out;
            }
        };
        let new = ex.model.clone();
        let uni = ex.uni.clone();
        let cfg0 = ex.cfg.clone();
        let dir_for_len = ex.dir.clone();
        let _ = ex.finish(Ok(()));
        let returned = tr.returned.unwrap_or(u64::MAX);
        let mut counts: BTreeMap<(String, &'static str), u64> = BTreeMap::new();
        let mut targets: Vec<(String, &'static str, u64, bool)> = vec![]; // file, tag, ordinal, is page write
        for e in &tr.events {
            if matches!(e.kind, vio::Kind::Mark(_)) || e.seq > returned {
                continue;
            }
            let c = counts.entry((e.file.clone(), e.kind.tag())).or_insert(0);
            let pagew = matches!(e.kind, vio::Kind::Write { .. }) && (e.file == "ln" || e.file == "bbn" || e.file == "ht") && e.thread.contains("io-worker") == false && tr.events.iter().any(|_| true);
            targets.push((e.file.clone(), e.kind.tag(), *c, pagew));
            *c += 1;
        }
        let mut found: BTreeMap<String, String> = BTreeMap::new();
        let mut step_no = 0u64;
        let ops = hist["ops"].as_array().unwrap();
        let is_reopen = ops[target].get("reopen").is_some();
        for (file, tag, ordinal, _pagew) in targets.iter() {
            let page_modes: Vec<vio::PageFaultAt> = if *tag == "write" && (file == "ln" || file == "bbn" || file == "ht") {
                vec![vio::PageFaultAt::Submission, vio::PageFaultAt::Completion]
            } else {
                vec![vio::PageFaultAt::Submission]
            };
            // what the completion-queue entry of a page write may report instead of success:
            // an error while the worker thread's errno still holds EINTR from an unrelated earlier
            // syscall (must be reported like any failed write); a short count once (the write is
            // repeated: success, nothing lost); a short count every time (must end with an error,
            // never a hang)
            let cqe_modes: Vec<Option<(&'static str, vio::CqeFault)>> = if *tag == "write" && (file == "ln" || file == "bbn" || file == "ht") && case["cqe"].as_bool().unwrap_or(true) {
                vec![
                    None,
                    Some(("error reported by the completion entry while errno holds a stale EINTR", vio::CqeFault { result: -libc::EIO, stale_errno: Some(libc::EINTR), times: 1 })),
                    Some(("short write (100 bytes) reported once", vio::CqeFault { result: 100, stale_errno: None, times: 1 })),
                    Some(("short write (100 bytes) reported every time", vio::CqeFault { result: 100, stale_errno: None, times: u32::MAX })),
                ]
            } else {
                vec![None]
            };
            for cqe in cqe_modes.iter() {
            for persistent in [false, true] {
                for page_at in page_modes.iter() {
                    if cqe.is_some() && (persistent || *page_at == vio::PageFaultAt::Completion) {
                        continue;
                    }
                    if matches!(cqe, Some((_, c)) if c.times == u32::MAX) && !case["cqe_persistent"].as_bool().unwrap_or(true) {
                        continue;
                    }
                    step_no += 1;
                    if step_no <= skip {
                        continue;
                    }
                    let fclass = format!("{}:{}", if file.starts_with("rollback") { "rollback-segment" } else { file.as_str() }, tag);
                    let what = match cqe {
                        None => format!(
                            "op #{target} ({}) with {}failure injected at {file}:{tag}#{ordinal}{}",
                            ops[target].as_object().unwrap().keys().next().unwrap(),
                            if persistent { "persistent " } else { "" },
                            if *page_at == vio::PageFaultAt::Completion { " (reported at completion)" } else { "" }
                        ),
                        Some((desc, _)) => format!("op #{target} ({}) with {file}:{tag}#{ordinal}: {desc}", ops[target].as_object().unwrap().keys().next().unwrap()),
                    };
                    let benign = matches!(cqe, Some((_, c)) if c.result > 0 && c.times == 1);
                    println!("{}", json!({"progress": format!("{step_no}|{fclass}|{what}")}));
                    out.transitions += 1;
                    let mut record_v = |fp: String, msg: String, found: &mut BTreeMap<String, String>| {
                        found.entry(fp).or_insert(msg);
                    };
                    // fresh execution of the prefix
                    let mut ex = self.hist.start(prop, hist);
                    if let Err(v) = ex.open() {
                        record_v(v.fingerprint, v.msg, &mut found);
                        continue;
                    }
                    let mut bad_prefix = false;
                    for (i, op) in ops.iter().enumerate().take(target) {
                        if let Err(v) = ex.step(i, op) {
                            record_v(v.fingerprint, v.msg, &mut found);
                            bad_prefix = true;
                            break;
                        }
                    }
                    if bad_prefix {
                        let _ = ex.finish(Ok(()));
                        continue;
                    }
                    if is_reopen {
                        ex.n = None;
                    }
                    vio::enable();
                    vio::arm(vio::Fault {
                        file: file.clone(),
                        tag: tag.to_string(),
                        ordinal: *ordinal,
                        persistent,
                        page_at: *page_at,
                        abort: false,
                        cqe: cqe.as_ref().map(|c| c.1),
                    });
                    nomt::verif::lazy::enable(lazy);
                    let r = std::panic::catch_unwind(std::panic::AssertUnwindSafe(|| {
                        let r = ex.step(target, &ops[target]);
                        if r.is_ok() {
                            vio::mark("op_returned_ok");
                        }
                        r
                    }));
                    nomt::verif::lazy::enable(false);
                    let (events, fired) = vio::disable();
                    let ftr = Trace::new(events);
                    if std::env::var("MC_VERBOSE").is_ok() {
                        eprintln!("step {step_no}: {what}: fired={fired} result={}", match &r { Err(_) => "panic".to_string(), Ok(Ok(())) => "ok".to_string(), Ok(Err(v)) => format!("err {}: {}", v.fingerprint, v.msg.chars().take(160).collect::<String>()) });
                    }
                    if fired == 0 {
                        out.goals.push("fault-not-reached");
                        let _ = ex.finish(Ok(()));
                        continue;
                    }
                    out.goals.push("fault-fired");
                    let fired_in_call = if cqe.is_some() {
                        // (the completion entry is consumed before the completion is delivered, hence
                        // before the call that waits for it can return)
                        true
                    } else {
                        ftr.events.iter().any(|e| e.injected && e.seq < ftr.returned.unwrap_or(u64::MAX))
                    };
                    // the post-state is acceptable as soon as the switch-over record may have reached
                    // the file: i.e. once the meta write was issued (whether or not its fsync failed)
                    let meta_durable = ftr.events.iter().any(|e| e.file == "meta" && matches!(e.kind, vio::Kind::Write { .. }) && !e.injected);
                    match r {
                        Err(_) => {
                            record_v(
                                format!("fault-panic:{fclass}"),
                                format!("{what}: the call panicked (at {}) instead of returning an error", crate::last_panic_location()),
                                &mut found,
                            );
                            // the executor may be in an odd state: leak it rather than unwinding again
                            std::mem::forget(ex);
                            continue;
                        }
                        Ok(Ok(())) if benign => {
                            // a write reported short once is repeated: the call succeeds and the
                            // store must hold exactly the new state
                            out.goals.push("short-write-once-retried");
                            let dir = ex.dir.clone();
                            let _ = ex.finish(Ok(()));
                            match std::panic::catch_unwind(|| crate::driver::open_nomt_retry::<B3>(&dir, &cfg0, 10)) {
                                Err(_) => record_v(format!("reopen-panic:{fclass}"), format!("{what}: reopening afterwards panicked"), &mut found),
                                Ok(Err(e)) => record_v(format!("reopen-failed:{fclass}"), format!("{what}: reopening afterwards failed: {e:#}"), &mut found),
                                Ok(Ok(n)) => {
                                    let sides = Sides { old: &new, new: None, new_required_from: None };
                                    if let Err(v) = side_audit(&n, &sides, &uni, 0, &what) {
                                        record_v(format!("short-write-retry:{fclass}:{}", v.fingerprint), v.msg, &mut found);
                                    }
                                }
                            }
                            continue;
                        }
                        Ok(Ok(())) => {
                            if fired_in_call {
                                record_v(
                                    format!("swallowed:{fclass}"),
                                    format!("{what}: the call returned success although the injected I/O failure happened inside it"),
                                    &mut found,
                                );
                            }
                            let _ = ex.finish(Ok(()));
                            continue;
                        }
                        Ok(Err(v)) => {
                            if !api_error_fingerprint(&v.fingerprint) {
                                record_v(format!("fault-other:{}", v.fingerprint), format!("{what}: {}", v.msg), &mut found);
                                let _ = ex.finish(Ok(()));
                                continue;
                            }
                            out.goals.push("fault-reported");
                        }
                    }
                    // the call returned an error: poisoned, refuses further commits
                    if !is_reopen {
                        if let Some(n) = ex.n.as_ref() {
                            if !n.is_poisoned() {
                                record_v(
                                    format!("not-poisoned:{fclass}"),
                                    format!("{what}: the call failed but is_poisoned() is false"),
                                    &mut found,
                                );
                            } else {
                                // (a poisoned handle is documented as read-only and inconsistent: a
                                // panic while preparing the changeset is not a successful commit)
                                let res = std::panic::catch_unwind(std::panic::AssertUnwindSafe(|| {
                                    let s = n.begin_session(nomt::SessionParams::default());
                                    s.finish(vec![(uni[0], nomt::KeyReadWrite::Write(Some(vec![9])))]).and_then(|f| f.commit(n))
                                }));
                                if matches!(res, Ok(Ok(()))) {
                                    record_v(
                                        format!("commit-after-poison:{fclass}"),
                                        format!("{what}: a later commit on the poisoned handle succeeded"),
                                        &mut found,
                                    );
                                }
                            }
                        }
                    }
                    let dir = ex.dir.clone();
                    let _ = ex.finish(Ok(()));
                    // reopen: exactly pre or post
                    match std::panic::catch_unwind(|| crate::driver::open_nomt_retry::<B3>(&dir, &cfg0, 10)) {
                        Err(_) => record_v(format!("reopen-panic:{fclass}"), format!("{what}: reopening afterwards panicked"), &mut found),
                        Ok(Err(e)) => record_v(format!("reopen-failed:{fclass}"), format!("{what}: reopening afterwards failed: {e:#}"), &mut found),
                        Ok(Ok(n)) => {
                            let sides = Sides {
                                old: &old,
                                new: if meta_durable { Some(&new) } else { None },
                                new_required_from: None,
                            };
                            if let Err(v) = side_audit(&n, &sides, &uni, 0, &what) {
                                record_v(format!("atomicity:{fclass}:{}", v.fingerprint), v.msg, &mut found);
                            }
                        }
                    }
                }
            }
            }
        }
        // ---- a file-size limit for the whole process (RLIMIT_FSIZE, SIGXFSZ ignored) while the
        // operation runs: the KERNEL then refuses (EFBIG) or cuts short every write, append and
        // growth beyond the limit, on every file and through io_uring as well — short counts from
        // synchronous write(2) calls included, which the seam cannot produce. One limit per distinct
        // end offset of the reference trace: right below it (the operation is cut short inside) and
        // at its start (refused). Success under the limit is fine (everything fitted) but must be
        // real: a follow-up commit and a reopen (limit lifted) must work on the new state.
        if case["fsize"].as_bool().unwrap_or(true) && !is_reopen {
            let mut limits: BTreeSet<u64> = BTreeSet::new();
            let mut lens: BTreeMap<String, u64> = BTreeMap::new();
            for e in &tr.events {
                let cur = lens.get(&e.file).cloned();
                let (start, end) = match &e.kind {
                    vio::Kind::Write { off, data } => (*off, *off + data.len() as u64),
                    vio::Kind::Append { data } => {
                        // appends start at the current end of the file (unknown from the trace alone
                        // for pre-existing files: taken from the directory below)
                        let l = cur.unwrap_or_else(|| std::fs::metadata(dir_for_len.join(&e.file)).map(|m| m.len()).unwrap_or(0));
                        (l, l + data.len() as u64)
                    }
                    vio::Kind::SetLen(l) => (cur.unwrap_or(0).min(*l), *l),
                    _ => continue,
                };
                lens.insert(e.file.clone(), end.max(cur.unwrap_or(0)));
                if end > 4096 && end < (1 << 26) {
                    limits.insert(end - 1);
                    limits.insert(end - 2048.min(end - start).max(1));
                    if start > 4096 {
                        limits.insert(start);
                    }
                }
            }
            unsafe {
                libc::signal(libc::SIGXFSZ, libc::SIG_IGN);
            }
            let set_limit = |l: u64| unsafe {
                let mut cur: libc::rlimit = std::mem::zeroed();
                libc::getrlimit(libc::RLIMIT_FSIZE, &mut cur);
                let new = libc::rlimit { rlim_cur: l.min(cur.rlim_max), rlim_max: cur.rlim_max };
                libc::setrlimit(libc::RLIMIT_FSIZE, &new);
            };
            for limit in limits {
                step_no += 1;
                if step_no <= skip {
                    continue;
                }
                let what = format!("op #{target} ({}) under a file-size limit of {limit} bytes (RLIMIT_FSIZE)", ops[target].as_object().unwrap().keys().next().unwrap());
                println!("{}", json!({"progress": format!("{step_no}|fsize-limit|{what}")}));
                out.transitions += 1;
                let mut ex = self.hist.start(prop, hist);
                let mut bad = ex.open().is_err();
                for (i, op) in ops.iter().enumerate().take(target) {
                    if !bad && ex.step(i, op).is_err() {
                        bad = true;
                    }
                }
                if bad {
                    let _ = ex.finish(Ok(()));
                    continue;
                }
                nomt::verif::lazy::enable(lazy);
                set_limit(limit);
                let r = std::panic::catch_unwind(std::panic::AssertUnwindSafe(|| ex.step(target, &ops[target])));
                set_limit(u64::MAX);
                nomt::verif::lazy::enable(false);
                match r {
                    Err(_) => {
                        found.entry("fault-panic:fsize-limit".into()).or_insert(format!("{what}: the call panicked (at {}) instead of returning an error", crate::last_panic_location()));
                        std::mem::forget(ex);
                        continue;
                    }
                    Ok(Ok(())) => {
                        // everything fitted — or a refused / shortened write was swallowed: the new
                        // state must be real
                        out.goals.push("fsize-limit:operation-succeeded");
                        let follow = json!({"c": [[0, "w", 7]]});
                        let r2 = ex.step(9000, &follow).and_then(|_| ex.step(9001, &json!({"reopen": {}})));
                        if let Err(v) = r2 {
                            found.entry(format!("swallowed:fsize-limit:{}", v.fingerprint)).or_insert(format!("{what}: the call returned success, but afterwards (limit lifted) a follow-up commit and a reopen give: {}", v.msg));
                        }
                        let _ = ex.finish(Ok(()));
                        continue;
                    }
                    Ok(Err(v)) => {
                        if !api_error_fingerprint(&v.fingerprint) {
                            found.entry(format!("fault-other:{}", v.fingerprint)).or_insert(format!("{what}: {}", v.msg));
                            let _ = ex.finish(Ok(()));
                            continue;
                        }
                        out.goals.push("fsize-limit:reported");
                    }
                }
                if let Some(n) = ex.n.as_ref() {
                    if !n.is_poisoned() {
                        found.entry("not-poisoned:fsize-limit".into()).or_insert(format!("{what}: the call failed but is_poisoned() is false"));
                    }
                }
                let dir = ex.dir.clone();
                let _ = ex.finish(Ok(()));
                match std::panic::catch_unwind(|| crate::driver::open_nomt_retry::<B3>(&dir, &cfg0, 10)) {
                    Err(_) => {
                        found.entry("reopen-panic:fsize-limit".into()).or_insert(format!("{what}: reopening afterwards (limit lifted) panicked"));
                    }
                    Ok(Err(e)) => {
                        found.entry("reopen-failed:fsize-limit".into()).or_insert(format!("{what}: reopening afterwards (limit lifted) failed: {e:#}"));
                    }
                    Ok(Ok(n)) => {
                        let sides = Sides { old: &old, new: Some(&new), new_required_from: None };
                        if let Err(v) = side_audit(&n, &sides, &uni, 0, &what) {
                            found.entry(format!("atomicity:fsize-limit:{}", v.fingerprint)).or_insert(v.msg);
                        }
                    }
                }
            }
        }
        out.sig = fnv_str(&format!("{}:{}", targets.len(), found.len()));
        out.states.push(fnv_str(&format!("{:?}", targets)));
        let mut it = found.into_iter().map(|(fp, msg)| Violation::new(fp, msg));
        out.violation = it.next();
        out.more = it.collect();
        out
    }

    /// Bucket exhaustion: a batch that needs more merkle pages than the table has buckets.
    fn run_exhaustion(&mut self, prop: &str, case: &Value) -> Outcome {
        let hist = &case["hist"];
        let mut out = Outcome::default();
        out.nontrivial = true;
        println!("{}", json!({"progress": format!("x|bucket-exhaustion|commit needing more pages than the {} buckets of the table", hist["cfg"]["buckets"])}));
        let mut ex = self.hist.start(prop, hist);
        let r: Result<(), Violation> = (|| {
            ex.open()?;
            let ops = hist["ops"].as_array().unwrap();
            let old = ex.model.clone();
            let mut failed = false;
            for (i, op) in ops.iter().enumerate() {
                match ex.step(i, op) {
                    Ok(()) => {}
                    Err(v) if api_error_fingerprint(&v.fingerprint) => {
                        failed = true;
                        out.goals.push("exhaustion-reported");
                        let n = ex.n.as_ref().unwrap();
                        if !n.is_poisoned() {
                            return Err(viol("not-poisoned:bucket-exhaustion", format!("commit failed ({}) but the handle is not poisoned", v.msg)));
                        }
                        break;
                    }
                    Err(v) => return Err(v),
                }
            }
            if !failed {
                out.goals.push("batch-fitted");
                return Ok(());
            }
            let _ = old;
            Ok(())
        })();
        let model_before = ex.model.clone();
        let dir = ex.dir.clone();
        let cfg = ex.cfg.clone();
        let uni = ex.uni.clone();
        let mut o = ex.finish(r);
        o.goals.extend(out.goals.drain(..));
        o.nontrivial = true;
        o.transitions += 1;
        if o.violation.is_none() {
            // reopen: the failed commit must be invisible (the model was not advanced by it)
            match crate::driver::open_nomt_retry::<B3>(&dir, &cfg, 10) {
                Err(e) => o.violation = Some(viol("reopen-failed:bucket-exhaustion", format!("reopen after bucket exhaustion failed: {e:#}"))),
                Ok(n) => {
                    if let Err(m) = audit::<B3>(&n, &model_before, &uni, AuditFlags::ALL) {
                        // the new state is acceptable only if the failed commit's meta swap happened: it cannot, since
                        // exhaustion is detected before the switch-over
                        o.violation = Some(viol("atomicity:bucket-exhaustion", format!("after a commit failed with bucket exhaustion and a reopen: {m}")));
                    }
                }
            }
        }
        o
    }
}


// ---------------------------------------------------------------------------------------------
// Real process death: the traced operation is re-executed in a child process that aborts
// (SIGABRT, no destructor, no unwinding) right before its k-th mutating / syncing file operation,
// for every k. What the dead process leaves behind is a *real* crash state (the kernel releases the
// directory lock and finishes or cancels the in-flight io_uring writes), not one synthesised from
// a trace: it must open again at once, show exactly the old or the new state, and — as a
// conformance check of the crash model used by the cut enumeration — every page and every file
// length found in it must be explained by the pre-image plus the operations of the reference trace.

/// Child side (`mc killchild <PROP>`, case on stdin). Prints `DIR <path>` once the database
/// directory is known, `RETURNED` if the target operation returned, `SURVIVED` if it got to the end.
pub fn kill_child_main(prop: &str) -> i32 {
    use std::io::{Read, Write};
    let mut s = String::new();
    std::io::stdin().read_to_string(&mut s).unwrap();
    let case: Value = serde_json::from_str(&s).expect("case json");
    let hist = &case["hist"];
    let target = case["target"].as_u64().unwrap() as usize;
    let mut hx = HistX::new();
    let mut ex = hx.start(prop, hist);
    println!("DIR {}", ex.dir.display());
    std::io::stdout().flush().unwrap();
    if ex.open().is_err() {
        println!("PREFIX-FAILED");
        return 3;
    }
    let ops = hist["ops"].as_array().unwrap();
    for (i, op) in ops.iter().enumerate().take(target) {
        if ex.step(i, op).is_err() {
            println!("PREFIX-FAILED");
            return 3;
        }
    }
    if ops[target].get("reopen").is_some() {
        ex.n = None;
    }
    // the physical pre-image of THIS process's run (free-list order, rollback records and page
    // placement may differ from run to run) and, at the moment of death, this run's own I/O log
    let root = PathBuf::from(std::env::var("MC_SCRATCH_ROOT").expect("MC_SCRATCH_ROOT"));
    DirImage::snapshot(&ex.dir).expect("snapshot").materialize(&root.join("pre")).expect("materialize pre");
    let log_path = root.join("trace.bin");
    vio::set_abort_hook(Box::new(move |events| {
        let _ = std::fs::write(&log_path, encode_events(events));
    }));
    vio::enable();
    vio::arm(vio::Fault {
        file: case["fault"]["file"].as_str().unwrap().to_string(),
        tag: case["fault"]["tag"].as_str().unwrap().to_string(),
        ordinal: case["fault"]["ordinal"].as_u64().unwrap(),
        persistent: false,
        page_at: vio::PageFaultAt::Submission,
        abort: true,
        cqe: None,
    });
    nomt::verif::lazy::enable(case["lazy"].as_bool().unwrap_or(false));
    let r = ex.step(target, &ops[target]);
    if r.is_ok() {
        println!("RETURNED");
        std::io::stdout().flush().unwrap();
    }
    nomt::verif::lazy::enable(false);
    let _ = ex.finish(Ok(()));
    let _ = vio::disable();
    println!("SURVIVED");
    0
}

fn encode_events(events: &[vio::Event]) -> Vec<u8> {
    let mut b = vec![];
    let put = |b: &mut Vec<u8>, x: u64| b.extend_from_slice(&x.to_le_bytes());
    for e in events {
        let (tag, off, data): (u8, u64, &[u8]) = match &e.kind {
            vio::Kind::Write { off, data } => (1, *off, data),
            vio::Kind::Append { data } => (2, 0, data),
            vio::Kind::SetLen(l) => (3, *l, &[]),
            vio::Kind::Fsync => (4, 0, &[]),
            vio::Kind::FsyncData => (5, 0, &[]),
            vio::Kind::Create => (6, 0, &[]),
            vio::Kind::Unlink => (7, 0, &[]),
            vio::Kind::DirSync => (8, 0, &[]),
            vio::Kind::Mark(m) => (9, 0, m.as_bytes()),
        };
        put(&mut b, e.seq);
        put(&mut b, e.done.unwrap_or(0));
        put(&mut b, e.performed.unwrap_or(0));
        put(&mut b, e.file.len() as u64);
        b.extend_from_slice(e.file.as_bytes());
        b.push(tag);
        put(&mut b, off);
        put(&mut b, data.len() as u64);
        b.extend_from_slice(data);
    }
    b
}

fn decode_events(b: &[u8]) -> Option<Vec<vio::Event>> {
    let mut pos = 0usize;
    let mut out = vec![];
    let get = |pos: &mut usize| -> Option<u64> {
        let v = u64::from_le_bytes(b.get(*pos..*pos + 8)?.try_into().ok()?);
        *pos += 8;
        Some(v)
    };
    while pos < b.len() {
        let seq = get(&mut pos)?;
        let done = get(&mut pos)?;
        let performed = get(&mut pos)?;
        let fl = get(&mut pos)? as usize;
        let file = String::from_utf8(b.get(pos..pos + fl)?.to_vec()).ok()?;
        pos += fl;
        let tag = *b.get(pos)?;
        pos += 1;
        let off = get(&mut pos)?;
        let dl = get(&mut pos)? as usize;
        let data = b.get(pos..pos + dl)?.to_vec();
        pos += dl;
        let kind = match tag {
            1 => vio::Kind::Write { off, data },
            2 => vio::Kind::Append { data },
            3 => vio::Kind::SetLen(off),
            4 => vio::Kind::Fsync,
            5 => vio::Kind::FsyncData,
            6 => vio::Kind::Create,
            7 => vio::Kind::Unlink,
            8 => vio::Kind::DirSync,
            9 => vio::Kind::Mark(String::from_utf8(data).ok()?),
            _ => return None,
        };
        out.push(vio::Event {
            seq,
            done: if done == 0 { None } else { Some(done) },
            performed: if performed == 0 { None } else { Some(performed) },
            file,
            kind,
            thread: String::new(),
            injected: false,
        });
    }
    Some(out)
}

/// The crash model of the cut enumeration, checked against a real kill: the directory the dead
/// process left behind must be EXACTLY its pre-image plus every operation its own log shows as
/// performed, plus some subset of the operations that were in flight (submitted, not yet seen
/// performed) when it died. `Ok(k)`: explained, with k in-flight operations found applied.
fn explain_exact(pre: &DirImage, events: &[vio::Event], real: &DirImage) -> Result<usize, Vec<String>> {
    let mut img = pre.clone();
    let mut done: Vec<&vio::Event> = events.iter().filter(|e| is_mutation(e) && e.performed.is_some()).collect();
    done.sort_by_key(|e| e.performed);
    for e in done {
        apply_event(&mut img, e);
    }
    let mut inflight: Vec<&vio::Event> = events.iter().filter(|e| is_mutation(e) && e.performed.is_none()).collect();
    inflight.sort_by_key(|e| e.seq);
    let mut applied = 0usize;
    for e in inflight {
        // did it land? compare the region it would change
        let landed = match &e.kind {
            vio::Kind::Write { off, data } => real.files.get(&e.file).map_or(false, |f| f.len >= off + data.len() as u64 && f.read_at(*off, data.len()) == *data),
            vio::Kind::Append { data } => {
                let l = img.files.get(&e.file).map_or(0, |f| f.len);
                real.files.get(&e.file).map_or(false, |f| f.len >= l + data.len() as u64 && f.read_at(l, data.len()) == *data)
            }
            vio::Kind::SetLen(l) => real.files.get(&e.file).map_or(false, |f| f.len == *l),
            vio::Kind::Create => real.files.contains_key(&e.file),
            vio::Kind::Unlink => !real.files.contains_key(&e.file),
            _ => false,
        };
        // (an in-flight write that equals what is there already makes no difference either way)
        if landed {
            apply_event(&mut img, e);
            applied += 1;
        }
    }
    let d = img.diff(real);
    if d.is_empty() {
        Ok(applied)
    } else {
        Err(d)
    }
}

impl CrashX {
    fn run_kill(&mut self, prop: &str, case: &Value) -> Outcome {
        use std::io::{Read, Write};
        let hist = &case["hist"];
        let target = case["target"].as_u64().unwrap() as usize;
        let lazy = case["lazy"].as_bool().unwrap_or(false);
        let mut out = Outcome::default();
        out.nontrivial = true;
        self.lazy = lazy;
        let traced = self.run_traced(prop, hist, target);
        self.lazy = false;
        let (ex, _pre, old, tr, _) = match traced {
            Ok(x) => x,
            Err(v) => {
                out.violation = Some(v);
                return out;
            }
        };
        let new = ex.model.clone();
        let uni = ex.uni.clone();
        let cfg0 = ex.cfg.clone();
        let _ = ex.finish(Ok(()));
        let mut counts: BTreeMap<(String, &'static str), u64> = BTreeMap::new();
        let mut targets: Vec<(String, &'static str, u64)> = vec![];
        for e in &tr.events {
            if matches!(e.kind, vio::Kind::Mark(_)) {
                continue;
            }
            let c = counts.entry((e.file.clone(), e.kind.tag())).or_insert(0);
            targets.push((e.file.clone(), e.kind.tag(), *c));
            *c += 1;
        }
        let stride = case["stride"].as_u64().unwrap_or(1).max(1) as usize;
        let exe = std::env::current_exe().expect("current_exe");
        let mut found: BTreeMap<String, String> = BTreeMap::new();
        let mut capped = 0u64;
        for (k, (file, tag, ordinal)) in targets.iter().enumerate() {
            if k % stride != 0 && k + 1 != targets.len() {
                continue;
            }
            let what = format!("process killed right before {file}:{tag}#{ordinal} of op #{target}");
            out.transitions += 1;
            let root = self.scratch.dir(&format!("kill-{k}"));
            let _ = std::fs::remove_dir_all(&root);
            std::fs::create_dir_all(&root).unwrap();
            struct Rm(PathBuf);
            impl Drop for Rm {
                fn drop(&mut self) {
                    let _ = std::fs::remove_dir_all(&self.0);
                }
            }
            let _rm = Rm(root.clone());
            let child_case = json!({"hist": hist, "target": target, "lazy": lazy, "fault": {"file": file, "tag": tag, "ordinal": ordinal}});
            let mut child = match std::process::Command::new(&exe)
                .args(["killchild", prop])
                .env("MC_SCRATCH_ROOT", &root)
                .stdin(std::process::Stdio::piped())
                .stdout(std::process::Stdio::piped())
                .stderr(std::process::Stdio::null())
                .spawn()
            {
                Ok(c) => c,
                Err(e) => {
                    found.entry("machinery".into()).or_insert(format!("spawn: {e}"));
                    break;
                }
            };
            let _ = child.stdin.take().unwrap().write_all(child_case.to_string().as_bytes());
            // wait with a timeout
            let t0 = std::time::Instant::now();
            let status = loop {
                match child.try_wait() {
                    Ok(Some(st)) => break Some(st),
                    Ok(None) => {
                        if t0.elapsed().as_secs() > 30 {
                            let _ = child.kill();
                            let _ = child.wait();
                            break None;
                        }
                        std::thread::sleep(std::time::Duration::from_millis(2));
                    }
                    Err(_) => break None,
                }
            };
            let mut text = String::new();
            let _ = child.stdout.take().unwrap().read_to_string(&mut text);
            let dir = text.lines().find_map(|l| l.strip_prefix("DIR ")).map(PathBuf::from);
            let returned = text.lines().any(|l| l == "RETURNED");
            let Some(status) = status else {
                found.entry("kill-child-hang".into()).or_insert(format!("{what}: the child process neither died nor finished within 30 s"));
                continue;
            };
            use std::os::unix::process::ExitStatusExt;
            if status.signal() != Some(libc::SIGABRT) {
                if status.code() == Some(0) && text.lines().any(|l| l == "SURVIVED") {
                    out.goals.push("kill-point-not-reached");
                } else {
                    found.entry("machinery".into()).or_insert(format!("{what}: child ended with {status:?}: {text}"));
                }
                continue;
            }
            out.goals.push("process-died-at-kill-point");
            if returned {
                out.goals.push("killed-after-the-call-returned");
            }
            let Some(dir) = dir else {
                found.entry("machinery".into()).or_insert(format!("{what}: child printed no directory"));
                continue;
            };
            // the raw state the dead process left behind
            let raw = match DirImage::snapshot(&dir) {
                Ok(r) => r,
                Err(e) => {
                    found.entry("machinery".into()).or_insert(format!("{what}: snapshot: {e}"));
                    continue;
                }
            };
            // conformance of the crash model: is the raw state made of the pre-image and of
            // operations the seam recorded in the reference run, and of nothing else?
            let child_pre = DirImage::snapshot(&root.join("pre"));
            let child_log = std::fs::read(root.join("trace.bin")).ok().and_then(|b| decode_events(&b));
            match (child_pre, child_log) {
                (Ok(cpre), Some(clog)) => match explain_exact(&cpre, &clog, &raw) {
                    Ok(k) => {
                        out.goals.push("real-crash-state=pre+performed+subset-of-in-flight");
                        if k > 0 {
                            out.goals.push("real-crash-state-has-in-flight-operations-applied");
                        }
                    }
                    Err(d) => {
                        out.goals.push("real-crash-state-NOT-explained-by-its-own-log");
                        eprintln!("NOTE (crash-model conformance): {what}: the directory left behind differs from pre-image + performed + in-flight operations of the dead process's own log: {d:?}");
                    }
                },
                _ => out.goals.push("real-crash-log-unavailable"),
            }
            // 1. the dead process's lock is gone: open at once, no retry
            let n = match std::panic::catch_unwind(|| open_nomt::<B3>(&dir, &cfg0)) {
                Err(_) => {
                    found.entry("open-after-death-panic".into()).or_insert(format!("{what}: Nomt::open of the directory left behind panicked (at {})", crate::last_panic_location()));
                    continue;
                }
                Ok(Err(e)) => {
                    found.entry("open-after-death-failed".into()).or_insert(format!("{what}: Nomt::open of the directory left behind failed: {e:#}"));
                    continue;
                }
                Ok(Ok(n)) => n,
            };
            if prop == "C20" {
                // C20 asks only that the directory of a dead holder opens again (what it holds is
                // C03's question): the new handle must be able to commit
                let k0 = uni[0];
                let r = n.begin_session(nomt::SessionParams::default()).finish(vec![(k0, nomt::KeyReadWrite::Write(Some(vec![9])))]).and_then(|f| f.commit(&n));
                match r {
                    Ok(()) => out.goals.push("new-holder-commits-after-process-death"),
                    Err(e) if cfg0.buckets <= 8 && format!("{e:#}").contains("exhaustion") => {}
                    Err(e) => {
                        found.entry("commit-after-death".into()).or_insert(format!("{what}: the next holder's commit failed: {e:#}"));
                    }
                }
                continue;
            }
            let sides = Sides {
                old: &old,
                new: Some(&new),
                new_required_from: if returned { Some(0) } else { None },
            };
            if let Err(v) = side_audit(&n, &sides, &uni, 1, &what) {
                found.entry(v.fingerprint).or_insert(v.msg);
                continue;
            }
            drop(n);
            // 2. the raw state again, inspected like a synthesised image: decode after recovery,
            //    occupancy, follow-up commit + rollback, and every cut of the recovery itself
            let ic = ImageCheck {
                cfg: &cfg0,
                uni: &uni,
                dir: self.scratch.dir("kimg"),
                nested_dir: self.scratch.dir("kimg-nested"),
                follow_up: true,
                cold_follow_up: false,
                nested: if case["nested"].as_bool().unwrap_or(true) { Some("c03") } else { None },
                decode: true,
                occupancy: true,
                reopen_after_follow_up: true,
            };
            if let Err(v) = check_image(&ic, &raw, &sides, 1, &format!("{what}; the state left behind"), &mut out, 0, 5, &mut capped) {
                found.entry(v.fingerprint).or_insert(v.msg);
            }
        }
        out.sig = fnv_str(&format!("{}:{}", targets.len(), found.len()));
        out.states.push(fnv_str(&format!("{:?}", targets)));
        let mut it = found.into_iter().map(|(fp, msg)| Violation::new(fp, msg));
        out.violation = it.next();
        out.more = it.collect();
        out
    }
}

/// Independent reading of a WAL blob: the offset of its END tag and the blob's length, if the blob
/// parses (START seqn (UPDATE page-id diff nodes… elided bucket | CLEAR bucket)* END).
pub fn wal_end_offset(blob: &[u8]) -> Option<(usize, usize)> {
    if blob.len() < 6 || blob[0] != 1 {
        return None;
    }
    let mut pos = 5usize;
    loop {
        match *blob.get(pos)? {
            2 => return Some((pos, blob.len())),
            3 => pos += 1 + 8,
            4 => {
                let diff = blob.get(pos + 33..pos + 49)?;
                let lo = u64::from_le_bytes(diff[..8].try_into().ok()?);
                let hi = u64::from_le_bytes(diff[8..].try_into().ok()?) & !(1u64 << 63);
                let n = (lo.count_ones() + hi.count_ones()) as usize;
                pos += 1 + 32 + 16 + 32 * n + 8 + 8;
            }
            _ => return None,
        }
    }
}

impl CrashX {
    /// `mc walsize <PROP>`: run a history, trace its last operation and print where the WAL's END
    /// tag lands (exploration aid for the WAL-geometry family).
    pub fn walsize(&mut self, prop: &str, hist: &Value, target: usize) -> Option<(usize, usize)> {
        let (ex, _pre, _old, tr, _) = self.run_traced(prop, hist, target).ok()?;
        let _ = ex.finish(Ok(()));
        let blob = tr.events.iter().find_map(|e| match &e.kind {
            vio::Kind::Write { data, .. } if e.file == "wal" => Some(data.clone()),
            _ => None,
        })?;
        wal_end_offset(&blob)
    }
}

impl Engine for CrashX {
    fn plan(&self, prop: &str, tier: &str) -> Plan {
        crate::plans::crash_plan(prop, tier)
    }

    fn run(&mut self, prop: &str, case: &Value) -> Outcome {
        match case["mode"].as_str().unwrap() {
            "c03" | "c04" | "c04o" | "c17" => self.run_cuts(prop, case),
            "c14" => self.run_faults(prop, case),
            "c14x" => self.run_exhaustion(prop, case),
            "kill" => self.run_kill(prop, case),
            m => panic!("crashx: unknown mode {m}"),
        }
    }
}

pub fn _unused() -> Value {
    json!(null)
}
