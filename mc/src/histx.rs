//! `histx`: exhaustive, deviation-bounded exploration of API histories on the real store,
//! checked step by step against the reference model.

use crate::driver::{self, audit, open_nomt, writes_of, Act, AuditFlags, Batch, Cfg, B3};
use crate::engine::{fnv_str, Engine, Outcome, Plan, Violation};
use crate::imgdec;
use crate::refmodel::{self, Kv, Model};
use crate::util::{self, hex, key_from_bits, kshort, DirImage, Key, Scratch};
use nomt::{FinishedSession, HashAlgorithm, Nomt, Overlay, SessionParams};
use serde_json::{json, Value};
use std::collections::BTreeMap;
use std::path::PathBuf;

// ---------------------------------------------------------------------------------------------
// Universes (named key sets) and seed states.

pub fn universe(name: &str) -> Vec<Key> {
    match name {
        // C01: colliding keys. Two that differ only in the last bit; two sharing 6 and two sharing
        // 12 bits with the first; the extreme keys.
        "U1" => {
            let base = key_from_bits("0110100101100110", false);
            let mut v = vec![
                base,
                util::flip_bit(&base, 255),
                util::flip_bit(&base, 6),
                util::flip_bit(&base, 12),
                [0u8; 32],
                [0xffu8; 32],
            ];
            v.sort();
            v
        }
        // the first two layers of the root page: keys with the leading bits 00, 01, 10, 11 (Q4) and
        // 000 … 111 (Q8), and all 64 six-bit prefixes (Q64: the last layer of the root page)
        "Q4" | "Q8" | "Q64" => {
            let n = if name == "Q4" { 4u8 } else if name == "Q8" { 8 } else { 64 };
            let shift = if name == "Q4" { 6 } else if name == "Q8" { 5 } else { 2 };
            (0..n)
                .map(|i| {
                    let mut k = [0x11u8.wrapping_mul(i + 1); 32];
                    k[0] = (i << shift) | (k[0] & ((1 << shift) - 1));
                    k
                })
                .collect()
        }
        // all 64 keys below one depth-1 merkle page (six-bit prefix 101101, every six-bit suffix): the
        // page is stored and its last layer holds 64 leaves
        "F64" => (0..64u8)
            .map(|i| {
                let mut k = [0x3cu8; 32];
                k[0] = 0b1011_0100 | (i >> 4);
                k[1] = (i << 4) | 0x0c;
                k
            })
            .collect(),
        // clusters A (indices 0..23: 20 present in seed `ab20`, 4 absent), B (24..47, likewise) and
        // two keys elsewhere (48, 49)
        "AB" => {
            let mut v: Vec<Key> = (0..24).map(|i| cluster_key(12, i)).collect();
            v.extend((0..24).map(|i| util::flip_bit(&cluster_key(12, i), 0)));
            let base = key_from_bits("0010010110", false);
            v.push(base);
            v.push(util::flip_bit(&base, 7));
            v
        }
        // SP — the sparse 12-bit cluster of seeds `sp18` / `sp19` (keys K(i) = prefix·0·i₅ and the
        // lone leaf L = prefix·1·0…): L, three absent keys sharing 14, 16 and 18 bits with L (a new
        // chain with terminator siblings inside the depth-2 page / reaching the depth-3 page), two
        // absent fillers K(30), K(31) and the present K(0), K(1)
        "SP" => vec![sp_key("1"), sp_key("101"), sp_key("10001"), sp_key("1000001"), sp_k(30), sp_k(31), sp_k(0), sp_k(1)],
        // four keys, for exhaustive single-batch enumeration
        "U4" => {
            let base = key_from_bits("1010010110", false);
            let mut v = vec![base, util::flip_bit(&base, 255), util::flip_bit(&base, 7), [0u8; 32]];
            v.sort();
            v
        }
        // C02: geometry family — pairs diverging at chosen depths around page boundaries.
        "U2" => {
            let base = key_from_bits("0101101001011010010110100101101001011010", false);
            let mut v = vec![base];
            for d in [0usize, 1, 5, 6, 7, 11, 12, 13, 17, 18, 127, 254, 255] {
                v.push(util::flip_bit(&base, d));
            }
            v.sort();
            v
        }
        // cluster universes: keys sharing `p` leading bits, numbered in the next 8 bits
        n if n.starts_with("CL") => {
            // CL<p>:<a>-<b>  e.g. CL12:0-24
            let rest = &n[2..];
            let (p, range) = rest.split_once(':').unwrap();
            let p: usize = p.parse().unwrap();
            let (a, b) = range.split_once('-').unwrap();
            let (a, b): (u32, u32) = (a.parse().unwrap(), b.parse().unwrap());
            (a..b).map(|i| cluster_key(p, i)).collect()
        }
        // SUB:<name>:<i>,<j>,… — the keys of universe <name> at the given indices
        n if n.starts_with("SUB:") => {
            let rest = &n[4..];
            let (name, idx) = rest.rsplit_once(':').unwrap();
            let base = universe(name);
            idx.split(',').map(|i| base[i.parse::<usize>().unwrap()]).collect()
        }
        // NB:<name> — the keys of <name> plus, for each, the keys differing from it in exactly one
        // of the bits {0,1,5,6,7,11,12,13,18,127,254,255} (absent neighbours at every page boundary)
        n if n.starts_with("NB:") => {
            let base = universe(&n[3..]);
            let mut v = base.clone();
            for k in &base {
                for d in [0usize, 1, 5, 6, 7, 11, 12, 13, 18, 127, 254, 255] {
                    v.push(util::flip_bit(k, d));
                }
            }
            v.sort();
            v.dedup();
            v
        }
        // WRK — keys placed by their root-child index (first six bits) on both sides of the
        // boundaries between the key ranges of 3, 5, 6 and 7 merkle workers (22|43, 13|26|39, 11|22|33,
        // 10|19|28), so that one terminal of a small trie spans several workers' ranges and a worker
        // has keys both inside and outside that terminal's sub-trie
        "WRK" => [5u8, 12, 13, 21, 22, 23, 28, 35, 43, 63]
            .iter()
            .map(|i| {
                let mut k = [0u8; 32];
                k[0] = i << 2;
                k[31] = 0x5a;
                k
            })
            .collect(),
        // BEFORE40 — three keys sorting before the `emptyrun` seed's leaf (first byte 0x10)
        "BEFORE40" => (0..3u8)
            .map(|i| {
                let mut k = [0u8; 32];
                k[0] = 0x10;
                k[31] = i;
                k
            })
            .collect(),
        // EXT — the extremes of the key space: all zeros, all ones, and their neighbours
        "EXT" => {
            let mut v: Vec<Key> = vec![[0u8; 32], [0xffu8; 32]];
            let mut k = [0u8; 32];
            k[31] = 1;
            v.push(k);
            let mut k = [0xffu8; 32];
            k[31] = 0xfe;
            v.push(k);
            let mut k = [0xffu8; 32];
            k[0] = 0x7f;
            v.push(k);
            let mut k = [0u8; 32];
            k[0] = 0x80;
            v.push(k);
            v.sort();
            v
        }
        // DEEP — ten keys sharing six bits (one depth-1 merkle page) and spread over a depth-4
        // binary sub-tree below it: terminals at different depths next to each other, so that a
        // walker moving from one accessed terminal to the next compacts 0, 1 or several levels
        "DEEP" => ["0000", "0001", "0010", "0100", "0101", "0110", "0111", "1000", "1100", "1111"]
            .iter()
            .map(|sfx| {
                let mut k = key_from_bits(&format!("101101{sfx}"), false);
                k[31] = 0x5a;
                k
            })
            .collect(),
        // ROUND — a "round" key (prefix, a one bit, then only zero bits) next to a sub-trie on its
        // left: L and W below prefix 010, R = 0110…0, R2 = 10…0, X elsewhere (sorted: L W R R2 X)
        "ROUND" => {
            let mut l = [0x33u8; 32];
            l[0] = 0x45;
            let mut w = [0x11u8; 32];
            w[0] = 0x4a;
            let mut r = [0u8; 32];
            r[0] = 0x60;
            let mut r2 = [0u8; 32];
            r2[0] = 0x80;
            let mut x = [0x77u8; 32];
            x[0] = 0xc3;
            vec![l, w, r, r2, x]
        }
        // PAIRS:<k> — k pairs of keys; pair i shares the 6-bit prefix i (so each pair needs its
        // own depth-1 merkle page) and differs at bit 7
        n if n.starts_with("PAIRS:") => {
            let k: u8 = n[6..].parse().unwrap();
            let mut v = vec![];
            for i in 0..k {
                let mut a = [0u8; 32];
                a[0] = i << 2;
                a[31] = 1;
                let mut b = a;
                b[0] |= 1;
                v.push(a);
                v.push(b);
            }
            v
        }
        // QUADS:<k> — k groups of four keys; group i shares the 6-bit prefix i (its own depth-1
        // merkle page), the four keys differ in bits 6 and 7
        n if n.starts_with("QUADS:") => {
            let k: u8 = n[6..].parse().unwrap();
            let mut v = vec![];
            for i in 0..k {
                for s in 0..4u8 {
                    let mut a = [0u8; 32];
                    a[0] = (i << 2) | s;
                    a[31] = 1;
                    v.push(a);
                }
            }
            v
        }
        _ => panic!("unknown universe {name}"),
    }
}

/// Key of the sparse cluster: the 12-bit cluster prefix followed by `suffix`, then zeros.
pub fn sp_key(suffix: &str) -> Key {
    let mut k = key_from_bits(&format!("110100101101{suffix}"), false);
    k[31] = 0x5a;
    k
}

/// K(i) of the sparse cluster: prefix, a zero bit, then `i` in five bits (bits 13..17).
pub fn sp_k(i: u32) -> Key {
    let bits: String = (0..5).rev().map(|b| if (i >> b) & 1 == 1 { '1' } else { '0' }).collect();
    sp_key(&format!("0{bits}"))
}

/// Key sharing a fixed `p`-bit prefix, then `i` in the following 8 bits, then zeros except a tail
/// marker so that keys are not all-zero.
pub fn cluster_key(p: usize, i: u32) -> Key {
    let prefix = "110100101101001011010010110100101101";
    let mut bits = String::from(&prefix[..p]);
    for b in (0..8).rev() {
        bits.push(if (i >> b) & 1 == 1 { '1' } else { '0' });
    }
    let mut k = key_from_bits(&bits, false);
    k[31] = 0x5a;
    k
}

pub struct Seed {
    pub image: DirImage,
    pub model: Model,
}

/// Keys of the structural seeds, so that universes can point inside them.
pub fn seed_keys(name: &str) -> Vec<Key> {
    match name {
        "empty" => vec![],
        // six keys with 1300-byte values: two leaves; the next large insert splits, a delete merges
        "leaf" => (0..6u8)
            .map(|i| {
                let mut k = [0x33u8; 32];
                k[31] = i * 16;
                k
            })
            .collect(),
        // 1500 pseudo-random keys
        "bulk" => {
            let mut l = util::Lcg(0xC0FFEE);
            let mut v: Vec<Key> = (0..1500).map(|_| l.key()).collect();
            v.sort();
            v
        }
        // 8000 pseudo-random keys: a batch over all of them on a cold store keeps hundreds of page
        // and leaf fetches of one merkle worker in flight at once
        "big8k" => {
            let mut l = util::Lcg(0xB16B00);
            let mut v: Vec<Key> = (0..8000).map(|_| l.key()).collect();
            v.sort();
            v.dedup();
            v
        }
        // ≈ 600 keys sharing 30 bytes: hundreds of leaves under one or two bottom branch nodes
        "branch" => (0..600u32)
            .map(|i| {
                let mut k = [0x77u8; 32];
                k[30] = (i >> 8) as u8;
                k[31] = (i & 0xff) as u8;
                k
            })
            .collect(),
        // two stored cluster pages under different root children: A = 20 keys sharing 12 bits,
        // B = the same keys with their first bit flipped
        "full1" => universe("F64"),
        "ab20" => {
            let mut v: Vec<Key> = (0..20).map(|i| cluster_key(12, i)).collect();
            v.extend((0..20).map(|i| util::flip_bit(&cluster_key(12, i), 0)));
            v.sort();
            v
        }
        // a sparse cluster under one 12-bit prefix: 17 (18) keys K(i) with bit 12 clear, spread over
        // bits 13..17, and one lone leaf L with bit 12 set — 18 (19) leaves, the depth-2 page elided
        "sp18" | "sp19" => {
            let n = if name == "sp18" { 17 } else { 18 };
            let mut v: Vec<Key> = (0..n).map(sp_k).collect();
            v.push(sp_key("1"));
            v.sort();
            v
        }
        n if n.starts_with("cl") => {
            // cl<p>x<n>: n cluster keys sharing p bits
            let rest = &n[2..];
            let (p, cnt) = rest.split_once('x').unwrap();
            let p: usize = p.parse().unwrap();
            let cnt: u32 = cnt.parse().unwrap();
            (0..cnt).map(|i| cluster_key(p, i)).collect()
        }
        "ovf" => {
            let mut k = [0x44u8; 32];
            k[0] = 0x90;
            vec![k]
        }
        // one leaf holding a 1300-byte value, a run of five EMPTY values, and another 1300-byte
        // value (index 0 = first large, 1..5 = empties, 6 = last large)
        "emptyrun" => {
            let mk = |lo: u8| {
                let mut k = [0u8; 32];
                k[0] = 0x40;
                k[31] = lo;
                k
            };
            vec![mk(0), mk(1), mk(2), mk(3), mk(4), mk(5), mk(0x80)]
        }
        // the on-disk part of the ROUND universe: L and X
        "round" => {
            let u = universe("ROUND");
            vec![u[0], u[4]]
        }
        // 1500 keys sharing 30 bytes with 1300-byte values: 500 leaves, twice what a 1 MiB leaf
        // cache holds, so with `leaf_cache: 1` every shard of the cache is over its budget
        "wide" => (0..1500u32)
            .map(|i| {
                let mut k = [0x66u8; 32];
                k[30] = (i >> 8) as u8;
                k[31] = (i & 0xff) as u8;
                k
            })
            .collect(),
        // 450 keys sharing 247 bits + 3 far keys (one commit): a branch node whose builder stops
        // prefix compression (prefix_compressed < n)
        "pfx" => {
            let mut v: Vec<Key> = (0..450u64)
                .map(|i| {
                    let mut k = [0u8; 32];
                    k[24..].copy_from_slice(&i.to_be_bytes());
                    k
                })
                .collect();
            for i in 0..3u8 {
                let mut k = [0xF0u8; 32];
                k[31] = i;
                v.push(k);
            }
            v
        }
        // two values of 70 000 bytes (18 overflow pages each: more than fit the cell's 15
        // pointers) and one of 61 381 bytes (16 pages), plus two small neighbours
        "ovf2" => (0..5u8)
            .map(|i| {
                let mut k = [0x21u8; 32];
                k[0] = 0x20 + i;
                k
            })
            .collect(),
        // 700 keys sharing 30 bytes (≈ 233 value leaves, two bottom branch nodes, the second one
        // starting inside the cluster) followed by 60 keys with scattered prefixes: the second
        // branch node holds prefix-compressed separators followed by uncompressed ones
        "mixed2" => {
            let mut v: Vec<Key> = (0..700u32)
                .map(|i| {
                    let mut k = [0x77u8; 32];
                    k[30] = (i >> 8) as u8;
                    k[31] = (i & 0xff) as u8;
                    k
                })
                .collect();
            let mut l = util::Lcg(0xBEEF);
            for i in 0..60u32 {
                let mut k = l.key();
                k[0] = 0x80 + (i as u8) * 2;
                v.push(k);
            }
            v.sort();
            v
        }
        _ => panic!("unknown seed {name}"),
    }
}

fn seed_value(name: &str, idx: usize) -> Vec<u8> {
    match name {
        "leaf" | "branch" | "wide" => util::value(1000 + idx as u64, 1300),
        "emptyrun" => util::value(3000 + idx as u64, if idx == 0 || idx == 6 { 1300 } else { 0 }),
        "bulk" => util::value(5000 + idx as u64, 1 + idx % 40),
        // (1000-byte values: three keys per leaf, ≈ 2700 distinct leaves to fetch)
        "big8k" => util::value(6000 + idx as u64, 1000),
        "ovf" => util::value(77, 5 * 1024 * 1024),
        "pfx" => util::value(4000 + idx as u64, 1000),
        "ovf2" => util::value(300 + idx as u64, [70000usize, 70000, 61381, 5, 1300][idx]),
        "mixed2" => util::value(2000 + idx as u64, 1300),
        _ => util::value(9000 + idx as u64, 1),
    }
}

pub fn build_seed<H: HashAlgorithm>(name: &str, cfg: &Cfg, scratch: &Scratch) -> Seed {
    let dir = scratch.dir(&format!("seed-{}", fnv_str(&format!("{name}{:?}", cfg))));
    let _ = std::fs::remove_dir_all(&dir);
    let mut model = Model::new(cfg.rollback, cfg.log_len as usize);
    {
        let db = driver::Db::<H>::open(&dir, cfg).expect("seed open");
        let keys = seed_keys(name);
        if !keys.is_empty() {
            // two commits so that the seed has a non-trivial history (free lists, tombstones)
            let half = if name == "pfx" { 0 } else { keys.len() / 2 };
            for part in [&keys[..half], &keys[half..]] {
                if part.is_empty() {
                    continue;
                }
                let base = if std::ptr::eq(part.as_ptr(), keys.as_ptr()) { 0 } else { half };
                let batch: Batch = part
                    .iter()
                    .enumerate()
                    .map(|(i, k)| (*k, Act::Write(Some(seed_value(name, base + i)))))
                    .collect();
                db.commit(&batch, &model.kv).expect("seed commit");
                model.commit(&writes_of(&batch));
            }
        }
    }
    let image = DirImage::snapshot(&dir).expect("seed snapshot");
    let _ = std::fs::remove_dir_all(&dir);
    Seed { image, model }
}

// ---------------------------------------------------------------------------------------------
// Case encoding helpers

/// Action codes in a batch: ["r"], ["w", size], ["d"], ["rw", size], ["rd"].
pub fn act_json(code: &str, size: Option<usize>) -> Value {
    match size {
        Some(s) => json!([code, s]),
        None => json!([code]),
    }
}

fn decode_batch(b: &Value, uni: &[Key], tag: u64) -> Batch {
    let mut out: Batch = vec![];
    for item in b.as_array().unwrap() {
        let a = item.as_array().unwrap();
        let ki = a[0].as_u64().unwrap() as usize;
        let code = a[1].as_str().unwrap();
        let size = a.get(2).and_then(|x| x.as_u64()).map(|x| x as usize);
        let key = uni[ki];
        let vtag = tag.wrapping_mul(131).wrapping_add(ki as u64);
        if code == "wn" || code == "rn" {
            // a run of `size` consecutive universe keys written (3-byte values) / read
            for j in 0..size.unwrap() {
                if let Some(k) = uni.get(ki + j) {
                    let vt = tag.wrapping_mul(131).wrapping_add((ki + j) as u64);
                    out.push((*k, if code == "wn" { Act::Write(Some(util::value(vt, 3))) } else { Act::Read }));
                }
            }
            continue;
        }
        if code == "d78" {
            // delete 7 of every 8 keys of a run of `size` consecutive universe keys
            for j in 0..size.unwrap() {
                if (ki + j) % 8 != 0 {
                    if let Some(k) = uni.get(ki + j) {
                        out.push((*k, Act::Write(None)));
                    }
                }
            }
            continue;
        }
        if code == "dn" {
            for j in 0..size.unwrap() {
                if let Some(k) = uni.get(ki + j) {
                    out.push((*k, Act::Write(None)));
                }
            }
            continue;
        }
        let act = match code {
            "r" => Act::Read,
            "w" => Act::Write(Some(util::value(vtag, size.unwrap()))),
            "d" => Act::Write(None),
            "rw" => Act::ReadThenWrite(Some(util::value(vtag, size.unwrap()))),
            "rd" => Act::ReadThenWrite(None),
            _ => panic!("bad act {code}"),
        };
        out.push((key, act));
    }
    out.sort_by(|a, b| a.0.cmp(&b.0));
    out
}

fn flags_of(name: &str) -> AuditFlags {
    match name {
        "values" => AuditFlags::VALUES,
        "root" => AuditFlags::ROOT,
        "all" => AuditFlags::ALL,
        "noproof" => AuditFlags {
            proofs: false,
            ..AuditFlags::ALL
        },
        "proofs" => AuditFlags {
            values: false,
            session_values: false,
            root: false,
            seqn: false,
            proofs: true,
        },
        _ => panic!("bad audit flags {name}"),
    }
}

// ---------------------------------------------------------------------------------------------
// The executor

struct MOverlay {
    parent: Option<usize>,
    writes: Vec<(Key, Option<Vec<u8>>)>,
    /// committed state the chain was rooted in when created
    base: Kv,
    /// model seqn when the root of this overlay's chain was created
    base_seqn: u32,
    status: OvStatus,
}

#[derive(Clone, Copy, PartialEq, Debug)]
enum OvStatus {
    Live,
    Committed,
    Dropped,
}

struct Prepared {
    fin: Option<FinishedSession>,
    base: Kv,
    base_seqn: u32,
    writes: Vec<(Key, Option<Vec<u8>>)>,
    /// prepared on a chain of overlays: the most recent one
    on_parent: Option<usize>,
}

pub struct HistX {
    scratch: Scratch,
    seeds: BTreeMap<String, Seed>,
    counter: u64,
}

impl HistX {
    pub fn new() -> Self {
        HistX {
            scratch: Scratch::new("histx"),
            seeds: BTreeMap::new(),
            counter: 0,
        }
    }

    fn seed(&mut self, name: &str, cfg: &Cfg) -> &Seed {
        let key = format!("{name}|{:?}", cfg);
        if !self.seeds.contains_key(&key) {
            let s = build_seed::<B3>(name, cfg, &self.scratch);
            self.seeds.insert(key.clone(), s);
        }
        &self.seeds[&key]
    }

    fn fresh_dir(&mut self) -> PathBuf {
        self.counter += 1;
        self.scratch.dir(&format!("db{}", self.counter % 4))
    }
}

pub struct Exec {
    pub prop: String,
    pub n: Option<Nomt<B3>>,
    pub dir: PathBuf,
    pub cfg: Cfg,
    pub model: Model,
    pub uni: Vec<Key>,
    /// keys audited in addition to the universe (e.g. every key of the seed state)
    pub audit_keys: Vec<Key>,
    pub flags: AuditFlags,
    /// decode the on-disk image at every quiescent point: "c16" (structure + kv + merkle) / "c19" (+ leaks)
    pub image: Option<String>,
    /// (ln_bump, bbn_bump, keys) observed at every quiescent point
    pub bumps: Vec<(u32, u32, usize)>,
    prev_shape: Option<(usize, usize, usize)>,
    overlays: BTreeMap<usize, (Option<Overlay>, MOverlay)>,
    /// id of the overlay whose commit was the last commit (None otherwise)
    last_commit_overlay: Option<usize>,
    prepared: BTreeMap<usize, Prepared>,
    /// sessions kept alive on this thread ("hold" / "release")
    held: BTreeMap<usize, nomt::Session<B3>>,
    pub out: Outcome,
    pub trace: Vec<String>,
    /// a changeset whose base equals the current state only because intervening commits were
    /// rolled back (same content, different history) has been accepted
    pub aba_accepted: bool,
    /// no reads between the operations: the audit runs only once, after the last operation
    /// (every audit warms the caches the next operation would otherwise find cold)
    pub quiet: bool,
}

fn viol(fp: &str, msg: String) -> Violation {
    Violation::new(fp, msg)
}

impl Exec {
    pub fn n(&self) -> &Nomt<B3> {
        self.n.as_ref().unwrap()
    }

    pub fn state_digest(&self) -> u64 {
        let mut s = String::new();
        for (k, v) in &self.model.kv {
            s.push_str(&hex(&k[..]));
            s.push_str(&format!(":{}:{};", v.len(), v.first().cloned().unwrap_or(0)));
        }
        s.push_str(&format!("|{}|{}", self.model.stack.len(), self.overlays.len()));
        fnv_str(&s)
    }

    pub fn audit(&mut self, when: &str) -> Result<(), Violation> {
        if self.quiet {
            return Ok(());
        }
        self.out.transitions += 1;
        let d = self.state_digest();
        self.out.states.push(d);
        audit::<B3>(self.n(), &self.model, &self.audit_keys, self.flags)
            .map_err(|m| viol("audit", format!("{when}: {m}")))?;
        if let Some(mode) = self.image.clone() {
            let img = DirImage::snapshot(&self.dir).map_err(|e| viol("snapshot", format!("{e}")))?;
            let opts = imgdec::CheckOpts {
                structure: true,
                kv_equals_model: true,
                merkle: true,
                leaks: mode == "c19",
            };
            let rep = imgdec::check_image::<B3>(&img, &self.model.kv, &opts)
                .map_err(|m| viol("image", format!("{when}: on-disk image: {m}")))?;
            if mode == "c19" {
                let occ = self.n().hash_table_utilization().occupied;
                if occ != rep.full_buckets || occ != rep.merkle.reachable_stored {
                    return Err(viol(
                        "occupancy",
                        format!("{when}: hash_table_utilization().occupied = {occ}, full buckets on disk = {}, stored pages reachable from the root = {}", rep.full_buckets, rep.merkle.reachable_stored),
                    ));
                }
                if self.model.kv.is_empty() && occ != 0 {
                    return Err(viol("occupancy", format!("{when}: store is empty but occupied = {occ}")));
                }
            }
            if let Some((pl, pb, pf)) = self.prev_shape {
                let g = &mut self.out.goals;
                if rep.leaves > pl { g.push("img:leaf-count-grew(split)"); }
                if rep.leaves < pl { g.push("img:leaf-count-shrank(merge)"); }
                if rep.bbns > pb { g.push("img:branch-count-grew(split)"); }
                if rep.bbns < pb { g.push("img:branch-count-shrank(merge)"); }
                if rep.ln_free < pf && pf > 0 { g.push("img:free-pages-reused"); }
            }
            self.prev_shape = Some((rep.leaves, rep.bbns, rep.ln_free));
            self.bumps.push((rep.ln_bump, rep.bbn_bump, rep.keys));
            let g = &mut self.out.goals;
            if rep.overflow_values > 0 { g.push("img:overflow-value"); }
            if rep.pointer_page_values > 0 { g.push("img:overflow-pointer-pages"); }
            if rep.merkle.elided_needed > 0 { g.push("img:page-elided"); }
            if rep.merkle.tombstones > 0 { g.push("img:tombstone"); }
            if rep.merkle.misprobes > 0 { g.push("img:misprobe"); }
            if rep.merkle.max_page_depth >= 2 { g.push("img:page-depth>=2"); }
            if rep.bbns > 1 { g.push("img:multi-bbn"); }
            if rep.leaves > 1 { g.push("img:multi-leaf"); }
            if rep.ln_free > 0 { g.push("img:ln-free-list"); }
            if rep.ln_free_pages > 1 { g.push("img:ln-free-list-2-pages"); }
            if rep.bbn_free > 0 { g.push("img:bbn-free-list"); }
        }
        Ok(())
    }

    /// The view of a (model-valid, fresh) chain given newest-first ids.
    fn chain_view(&self, on: &[usize]) -> Kv {
        let mut kv = self.model.kv.clone();
        for id in on.iter().rev() {
            Model::apply(&mut kv, &self.overlays[id].1.writes);
        }
        kv
    }

    /// Model verdict on a chain: Ok(fresh?) or Err(reason it must be refused).
    fn chain_valid(&self, on: &[usize]) -> Result<bool, &'static str> {
        if on.is_empty() {
            return Ok(true);
        }
        for w in on.windows(2) {
            if self.overlays[&w[0]].1.parent != Some(w[1]) {
                return Err("not ancestor");
            }
        }
        let last = &self.overlays[on.last().unwrap()].1;
        match last.parent {
            None => {}
            Some(p) => {
                if self.overlays[&p].1.status != OvStatus::Committed {
                    return Err("incomplete");
                }
            }
        }
        // fresh iff the committed state is what the chain was rooted in (+ committed ancestors)
        let mut base = last.base.clone();
        // walk committed ancestors of `last`: their writes are part of the committed state
        let mut cur = last.parent;
        let mut chain_committed = vec![];
        while let Some(p) = cur {
            chain_committed.push(p);
            cur = self.overlays[&p].1.parent;
        }
        for p in chain_committed.iter().rev() {
            Model::apply(&mut base, &self.overlays[p].1.writes);
        }
        Ok(base == self.model.kv)
    }

    pub fn step(&mut self, idx: usize, op: &Value) -> Result<(), Violation> {
        let tag = (idx as u64 + 1) * 7919;
        let (name, arg) = {
            let o = op.as_object().unwrap();
            let (k, v) = o.iter().next().unwrap();
            (k.as_str(), v.clone())
        };
        self.trace.push(name.to_string());
        if !self.held.is_empty() && matches!(name, "c" | "cw" | "rb" | "ovc" | "fc" | "reopen") {
            // a blocking writer waits for the session this very thread holds
            return Ok(());
        }
        match name {
            "hold" => {
                let id = arg.as_u64().unwrap() as usize;
                let s = self.n().begin_session(SessionParams::default());
                self.held.insert(id, s);
                self.out.transitions += 1;
            }
            "release" => {
                let id = arg.as_u64().unwrap() as usize;
                self.held.remove(&id);
                self.out.transitions += 1;
            }
            "c" | "cn" | "cw" => {
                let batch = decode_batch(&arg, &self.uni, tag);
                let n = self.n.as_ref().unwrap();
                let session = n.begin_session(if name == "cw" { driver::witness_params() } else { SessionParams::default() });
                if name == "cw" && self.cfg.warm_up {
                    // every key, or (for about half of the batches) every second key of the batch; the settle gives the
                    // warm-up worker time to finish its seeks, which the update then re-uses (a
                    // seek it has not finished is simply repeated by the update)
                    let every_second = batch.len() > 1 && batch.iter().map(|(k, _)| k[31] as u64 + k[0] as u64).sum::<u64>() % 2 == 1;
                    for (i, (k, _)) in batch.iter().enumerate() {
                        if !every_second || i % 2 == 0 {
                            session.warm_up(*k);
                        }
                    }
                    std::thread::sleep(std::time::Duration::from_micros(1000 + 25 * batch.len() as u64));
                    self.out.goals.push(if every_second { "warm-up:every-second-key" } else { "warm-up:all-keys" });
                }
                let actuals = driver::Db::<B3>::actuals(&session, &batch, &self.model.kv)
                    .map_err(|m| viol("session-read", m))?;
                let fin = session
                    .finish(actuals)
                    .map_err(|e| viol("finish-err", format!("finish failed: {e:#}")))?;
                let writes = writes_of(&batch);
                let mut after = self.model.kv.clone();
                Model::apply(&mut after, &writes);
                let want = refmodel::root::<B3>(&after);
                if self.flags.root && fin.root().into_inner() != want {
                    return Err(viol(
                        "finished-root",
                        format!(
                            "op {idx}: FinishedSession::root {} != reference {}",
                            hex(&fin.root().into_inner()[..8]),
                            hex(&want[..8])
                        ),
                    ));
                }
                let mut fin = fin;
                if name == "cw" {
                    let w = fin.take_witness().ok_or_else(|| viol("witness-missing", format!("op {idx}: no witness produced")))?;
                    check_witness(&w, &batch, &self.model.kv, fin.prev_root().into_inner(), fin.root().into_inner(), want)
                        .map_err(|m| viol("witness", format!("op {idx}: witness of batch {}: {m}", batch_desc(&batch))))?;
                    if w.path_proofs.len() > 1 {
                        self.out.goals.push("witness:multi-path");
                    }
                    if w.operations.writes.len() > w.path_proofs.len() {
                        self.out.goals.push("witness:shared-terminal");
                    }
                }
                if name == "c" || name == "cw" {
                    fin.commit(n)
                        .map_err(|e| viol("commit-err", format!("op {idx}: commit failed: {e:#}")))?;
                } else {
                    match fin.try_commit_nonblocking(n) {
                        Ok(None) if !self.held.is_empty() => {
                            return Err(viol(
                                "nonblocking-not-deferred",
                                format!("op {idx}: try_commit_nonblocking committed while another session is alive"),
                            ))
                        }
                        Ok(None) => {}
                        Ok(Some(_)) if !self.held.is_empty() => {
                            self.out.goals.push("nonblocking-deferred-ok");
                            self.audit(&format!("after op {idx} (deferred non-blocking commit)"))?;
                            return Ok(());
                        }
                        Ok(Some(_)) => {
                            return Err(viol(
                                "nonblocking-deferred",
                                format!("op {idx}: try_commit_nonblocking deferred with no session alive"),
                            ))
                        }
                        Err(e) => {
                            return Err(viol("commit-err", format!("op {idx}: commit failed: {e:#}")))
                        }
                    }
                }
                if !writes.is_empty() {
                    self.out.nontrivial = true;
                }
                self.model.commit(&writes);
                self.last_commit_overlay = None;
                self.audit(&format!("after op {idx} ({name})"))?;
            }
            "reopen" => {
                let mut cfgv = self.cfg.to_json();
                if let Some(o) = arg.as_object() {
                    for (k, v) in o {
                        cfgv[k] = v.clone();
                    }
                }
                let newcfg = Cfg::from_json(&cfgv);
                // live overlays and prepared changesets do not survive the handle
                self.held.clear();
                self.overlays.retain(|_, _| false);
                self.prepared.clear();
                self.last_commit_overlay = None;
                let occ_before = self.n.as_ref().map(|n| n.hash_table_utilization());
                self.n = None;
                // The directory lock is released when the last internal reference to the store
                // goes away, which can lag the drop of the handle (helper threads); that delay is
                // C20's subject. Here: retry for a bounded time.
                let t0 = std::time::Instant::now();
                let n = loop {
                    match open_nomt::<B3>(&self.dir, &newcfg) {
                        Ok(n) => break n,
                        Err(e) if format!("{e:#}").contains("Failed to lock directory") && t0.elapsed().as_secs() < 5 => {
                            self.out.goals.push("reopen-lock-retry");
                            std::thread::sleep(std::time::Duration::from_millis(2));
                        }
                        Err(e) => return Err(viol("reopen-err", format!("op {idx}: reopen failed: {e:#}"))),
                    }
                };
                self.n = Some(n);
                if newcfg.rollback != self.cfg.rollback || !newcfg.rollback {
                    // switching rollback off/on forgets history
                    if !newcfg.rollback {
                        self.model.stack.clear();
                        self.model.retained = 0;
                    }
                    self.model.rollback_enabled = newcfg.rollback;
                }
                self.model.log_len = newcfg.log_len as usize;
                self.model.retained = self.model.retained.min(self.model.log_len);
                self.cfg = newcfg;
                self.out.nontrivial = true;
                if let Some(b) = occ_before {
                    let a = self.n().hash_table_utilization();
                    if a.occupied != b.occupied || a.capacity != b.capacity {
                        return Err(viol(
                            "reopen-occupancy",
                            format!("op {idx}: hash-table utilisation changed across a reopen: {}/{} before, {}/{} after", b.occupied, b.capacity, a.occupied, a.capacity),
                        ));
                    }
                }
                // a cold reopen leaves every cache empty for the next operation: no audit reads
                if !arg.get("cold").and_then(|c| c.as_bool()).unwrap_or(false) {
                    self.audit(&format!("after op {idx} (reopen)"))?;
                }
            }
            "rb" => {
                let k = arg.as_u64().unwrap() as usize;
                let before = self.model.clone();
                let res = self.n().rollback(k);
                if k == 0 {
                    if res.is_err() {
                        return Err(viol("rollback0", format!("op {idx}: rollback(0) failed")));
                    }
                    self.audit(&format!("after op {idx} (rollback 0)"))?;
                    return Ok(());
                }
                self.last_commit_overlay = None;
                match res {
                    Ok(()) => {
                        if !self.model.can_serve(k) {
                            return Err(viol(
                                "rollback-unservable-ok",
                                format!("op {idx}: rollback({k}) succeeded but only {} commits exist", before.stack.len()),
                            ));
                        }
                        self.model.rollback(k);
                        self.out.nontrivial = true;
                        self.out.goals.push("rollback-ok");
                        self.audit(&format!("after op {idx} (rollback {k})"))?;
                    }
                    Err(e) => {
                        if self.model.must_serve(k) {
                            return Err(viol(
                                "rollback-refused",
                                format!("op {idx}: rollback({k}) failed although {} commits are retained: {e:#}", before.retained),
                            ));
                        }
                        self.out.goals.push("rollback-err");
                        // must not change anything, must not poison
                        if self.n().is_poisoned() {
                            return Err(viol(
                                "rollback-err-poisoned",
                                format!("op {idx}: unservable rollback({k}) poisoned the store: {e:#}"),
                            ));
                        }
                        self.audit(&format!("after op {idx} (failed rollback {k})"))?;
                    }
                }
            }
            "ov" => {
                let id = arg["id"].as_u64().unwrap() as usize;
                let on: Vec<usize> = arg["on"]
                    .as_array()
                    .unwrap()
                    .iter()
                    .map(|x| x.as_u64().unwrap() as usize)
                    .collect();
                if on.iter().any(|i| self.overlays.get(i).map_or(true, |e| e.0.is_none())) {
                    // refers to an overlay that was never created (its creation was refused) or
                    // whose handle was consumed: not an executable event
                    return Ok(());
                }
                let verdict = self.chain_valid(&on);
                let ovs: Vec<&Overlay> = on
                    .iter()
                    .map(|i| self.overlays[i].0.as_ref().expect("overlay handle gone"))
                    .collect();
                let witnessed = arg.get("w").and_then(|w| w.as_bool()).unwrap_or(false);
                let base_params = if witnessed { driver::witness_params() } else { SessionParams::default() };
                let params = base_params.overlay(ovs);
                let params = match (params, verdict) {
                    (Ok(p), Ok(fresh)) => {
                        if !fresh {
                            // stale chain: nothing is specified about what it reads
                            return Ok(());
                        }
                        p
                    }
                    (Err(_), Err(_)) => {
                        self.out.goals.push("chain-refused");
                        return Ok(());
                    }
                    (Ok(_), Err(why)) => {
                        return Err(viol(
                            "bad-chain-accepted",
                            format!("op {idx}: SessionParams::overlay accepted chain {on:?} which is {why}"),
                        ))
                    }
                    (Err(e), Ok(_)) => {
                        return Err(viol(
                            "good-chain-refused",
                            format!("op {idx}: SessionParams::overlay refused valid chain {on:?}: {e:?}"),
                        ))
                    }
                };
                let view = self.chain_view(&on);
                let batch = decode_batch(&arg["b"], &self.uni, tag);
                let n = self.n.as_ref().unwrap();
                let session = n.begin_session(params);
                if self.cfg.warm_up && !batch.is_empty() {
                    // warm-up of a session on an overlay chain: the warm-up worker seeks through
                    // pages that live in the uncommitted ancestors
                    for (k, _) in batch.iter() {
                        session.warm_up(*k);
                    }
                    std::thread::sleep(std::time::Duration::from_micros(1000 + 25 * batch.len() as u64));
                    self.out.goals.push("warm-up:overlay-session");
                }
                // session view audit
                let view_root = refmodel::root::<B3>(&view);
                for k in &self.uni {
                    if self.flags.session_values {
                        let got = session.read(*k).map_err(|e| viol("session-read", format!("{e:#}")))?;
                        if got.as_ref() != view.get(k) {
                            return Err(viol(
                                "overlay-session-read",
                                format!(
                                    "op {idx}: session on chain {on:?} reads {} = {} but the chain applied gives {}",
                                    kshort(k),
                                    driver::vdesc(got.as_deref()),
                                    driver::vdesc(view.get(k).map(|v| &v[..]))
                                ),
                            ));
                        }
                    }
                    if self.flags.proofs {
                        driver::check_proof::<B3>(&session, k, &view, view_root)
                            .map_err(|m| viol("overlay-session-proof", format!("op {idx}: chain {on:?}: {m}")))?;
                    }
                }
                let actuals = driver::Db::<B3>::actuals(&session, &batch, &view)
                    .map_err(|m| viol("session-read", m))?;
                let mut fin = session
                    .finish(actuals)
                    .map_err(|e| viol("finish-err", format!("finish failed: {e:#}")))?;
                let writes = writes_of(&batch);
                let mut after = view.clone();
                Model::apply(&mut after, &writes);
                let want = refmodel::root::<B3>(&after);
                if witnessed {
                    match fin.take_witness() {
                        None => return Err(viol("witness-missing", format!("op {idx}: a witnessed session on chain {on:?} produced no witness"))),
                        Some(w) => {
                            check_witness(&w, &batch, &view, fin.prev_root().into_inner(), fin.root().into_inner(), want)
                                .map_err(|m| viol("overlay-witness", format!("op {idx}: witness of a session on chain {on:?}: {m}")))?;
                            self.out.goals.push("overlay-session-witnessed");
                        }
                    }
                }
                let ov = fin.into_overlay();
                if self.flags.root && ov.root().into_inner() != want {
                    return Err(viol(
                        "overlay-root",
                        format!(
                            "op {idx}: Overlay::root {} != reference {} (chain {on:?})",
                            hex(&ov.root().into_inner()[..8]),
                            hex(&want[..8])
                        ),
                    ));
                }
                self.out.nontrivial = true;
                self.out.goals.push("overlay-created");
                let base = match on.last() {
                    None => self.model.kv.clone(),
                    Some(l) => self.overlays[l].1.base.clone(),
                };
                let base_seqn = match on.last() {
                    None => self.model.seqn,
                    Some(l) => self.overlays[l].1.base_seqn,
                };
                self.overlays.insert(
                    id,
                    (
                        Some(ov),
                        MOverlay {
                            parent: on.first().cloned(),
                            writes,
                            base,
                            base_seqn,
                            status: OvStatus::Live,
                        },
                    ),
                );
                self.out.transitions += 1;
            }
            "ovc" | "ovcn" => {
                let id = arg.as_u64().unwrap() as usize;
                let Some(entry) = self.overlays.get_mut(&id) else { return Ok(()) };
                let Some(ov) = entry.0.take() else { return Ok(()) };
                let m = &entry.1;
                // model verdict
                let parent_ok = match m.parent {
                    None => true,
                    Some(p) => self.last_commit_overlay == Some(p),
                };
                let mut base = m.base.clone();
                {
                    let mut cur = m.parent;
                    let mut anc = vec![];
                    while let Some(p) = cur {
                        anc.push(p);
                        cur = self.overlays[&p].1.parent;
                    }
                    for p in anc.iter().rev() {
                        Model::apply(&mut base, &self.overlays[p].1.writes);
                    }
                }
                let base_ok = base == self.model.kv;
                let n_committed_anc = {
                    let mut cnt = 0u32;
                    let mut cur = self.overlays[&id].1.parent;
                    while let Some(p) = cur {
                        cnt += 1;
                        cur = self.overlays[&p].1.parent;
                    }
                    cnt
                };
                let history_intact = self.model.seqn == self.overlays[&id].1.base_seqn + n_committed_anc;
                let writes = self.overlays[&id].1.writes.clone();
                let n = self.n.as_ref().unwrap();
                let res = if name == "ovc" {
                    ov.commit(n).map(|_| None)
                } else {
                    ov.try_commit_nonblocking(n)
                };
                if matches!(res, Ok(None)) && !self.held.is_empty() {
                    return Err(viol(
                        "nonblocking-not-deferred",
                        format!("op {idx}: overlay try_commit_nonblocking committed while another session is alive"),
                    ));
                }
                match res {
                    Ok(None) => {
                        if !(parent_ok && base_ok) {
                            return Err(viol(
                                "overlay-commit-accepted",
                                format!("op {idx}: commit of overlay {id} accepted although parent_committed_last={parent_ok} base_current={base_ok}"),
                            ));
                        }
                        if !history_intact {
                            self.aba_accepted = true;
                            self.out.goals.push("aba-accepted");
                        }
                        self.model.commit(&writes);
                        self.overlays.get_mut(&id).unwrap().1.status = OvStatus::Committed;
                        self.last_commit_overlay = Some(id);
                        self.out.goals.push("overlay-committed");
                        self.out.nontrivial = true;
                    }
                    Ok(None) if false => {}
                    Ok(Some(back)) if !self.held.is_empty() => {
                        // handed back: the overlay stays live, nothing changed
                        self.overlays.get_mut(&id).unwrap().0 = Some(back);
                        self.out.goals.push("nonblocking-deferred-ok");
                        self.audit(&format!("after op {idx} (deferred non-blocking overlay commit)"))?;
                        return Ok(());
                    }
                    Ok(Some(_)) => {
                        return Err(viol(
                            "nonblocking-deferred",
                            format!("op {idx}: overlay try_commit_nonblocking deferred with no session alive"),
                        ))
                    }
                    Err(e) => {
                        if parent_ok && base_ok && history_intact {
                            return Err(viol(
                                "overlay-commit-refused",
                                format!("op {idx}: commit of overlay {id} refused although its parent was committed last and its base is current: {e:#}"),
                            ));
                        }
                        self.overlays.get_mut(&id).unwrap().1.status = OvStatus::Dropped;
                        self.out.goals.push("overlay-commit-rejected");
                        if self.n().is_poisoned() {
                            return Err(viol(
                                "rejected-commit-poisoned",
                                format!("op {idx}: rejected overlay commit poisoned the store"),
                            ));
                        }
                    }
                }
                self.audit(&format!("after op {idx} ({name} {id})"))?;
            }
            "ovd" => {
                let id = arg.as_u64().unwrap() as usize;
                if let Some(entry) = self.overlays.get_mut(&id) {
                    if entry.0.take().is_some() {
                        entry.1.status = OvStatus::Dropped;
                        self.out.goals.push("overlay-dropped");
                    }
                }
                self.audit(&format!("after op {idx} (drop overlay {id})"))?;
            }
            "prep" => {
                let id = arg["id"].as_u64().unwrap() as usize;
                let batch = decode_batch(&arg["b"], &self.uni, tag);
                // optionally on a chain of uncommitted overlays (most recent first): the finished
                // session is later committed directly, which is legitimate exactly when the chain
                // has been committed in the meantime and nothing else has happened since
                let on: Vec<usize> = arg.get("on").and_then(|o| o.as_array()).map(|a| a.iter().map(|x| x.as_u64().unwrap() as usize).collect()).unwrap_or_default();
                if on.iter().any(|i| self.overlays.get(i).map_or(true, |e| e.0.is_none())) {
                    return Ok(());
                }
                if !on.is_empty() && !matches!(self.chain_valid(&on), Ok(true)) {
                    return Ok(());
                }
                let view = if on.is_empty() { self.model.kv.clone() } else { self.chain_view(&on) };
                let n = self.n.as_ref().unwrap();
                let params = if on.is_empty() {
                    SessionParams::default()
                } else {
                    let ovs: Vec<&Overlay> = on.iter().map(|i| self.overlays[i].0.as_ref().expect("overlay handle gone")).collect();
                    match SessionParams::default().overlay(ovs) {
                        Ok(p) => p,
                        Err(e) => return Err(viol("good-chain-refused", format!("op {idx}: SessionParams::overlay refused valid chain {on:?}: {e:?}"))),
                    }
                };
                let session = n.begin_session(params);
                let actuals = driver::Db::<B3>::actuals(&session, &batch, &view)
                    .map_err(|m| viol("session-read", m))?;
                let fin = session
                    .finish(actuals)
                    .map_err(|e| viol("finish-err", format!("finish failed: {e:#}")))?;
                if !on.is_empty() {
                    self.out.goals.push("changeset-prepared-on-overlay-chain");
                }
                self.prepared.insert(
                    id,
                    Prepared {
                        fin: Some(fin),
                        base: view,
                        base_seqn: self.model.seqn,
                        writes: writes_of(&batch),
                        on_parent: on.first().cloned(),
                    },
                );
                self.out.transitions += 1;
            }
            // a changeset prepared on a chain of overlays is frozen into an overlay only now
            // (FinishedSession::into_overlay) — possibly after its parent has been committed
            "p2ov" => {
                let pid = arg["prep"].as_u64().unwrap() as usize;
                let oid = arg["ov"].as_u64().unwrap() as usize;
                let Some(p) = self.prepared.get_mut(&pid) else { return Ok(()) };
                let Some(fin) = p.fin.take() else { return Ok(()) };
                let (parent, writes, view) = (p.on_parent, p.writes.clone(), p.base.clone());
                let ov = fin.into_overlay();
                let mut after = view.clone();
                Model::apply(&mut after, &writes);
                let want = refmodel::root::<B3>(&after);
                if self.flags.root && ov.root().into_inner() != want {
                    return Err(viol("overlay-root", format!("op {idx}: Overlay::root of a changeset frozen late != reference")));
                }
                let (base, base_seqn) = match parent {
                    None => (view, self.model.seqn),
                    Some(l) => (self.overlays[&l].1.base.clone(), self.overlays[&l].1.base_seqn),
                };
                self.overlays.insert(oid, (Some(ov), MOverlay { parent, writes, base, base_seqn, status: OvStatus::Live }));
                self.out.goals.push("changeset-frozen-into-overlay-late");
                self.out.transitions += 1;
            }
            "fc" | "fcn" => {
                let id = arg.as_u64().unwrap() as usize;
                let Some(p) = self.prepared.get_mut(&id) else { return Ok(()) };
                let Some(fin) = p.fin.take() else { return Ok(()) };
                let base_ok = p.base == self.model.kv;
                let history_intact = match p.on_parent {
                    None => p.base_seqn == self.model.seqn,
                    // on a chain: the chain's most recent overlay was the last thing committed
                    Some(parent) => self.last_commit_overlay == Some(parent),
                };
                let writes = p.writes.clone();
                let n = self.n.as_ref().unwrap();
                let res = if name == "fc" {
                    fin.commit(n).map(|_| None)
                } else {
                    fin.try_commit_nonblocking(n)
                };
                if matches!(res, Ok(None)) && !self.held.is_empty() {
                    return Err(viol(
                        "nonblocking-not-deferred",
                        format!("op {idx}: try_commit_nonblocking committed while another session is alive"),
                    ));
                }
                match res {
                    Ok(None) => {
                        if !base_ok {
                            return Err(viol(
                                "stale-commit-accepted",
                                format!("op {idx}: changeset {id} committed although its base is no longer current"),
                            ));
                        }
                        if !history_intact {
                            self.aba_accepted = true;
                            self.out.goals.push("aba-accepted");
                        }
                        self.model.commit(&writes);
                        self.last_commit_overlay = None;
                        self.out.goals.push("prepared-committed");
                        self.out.nontrivial = true;
                    }
                    Ok(Some(back)) if !self.held.is_empty() => {
                        self.prepared.get_mut(&id).unwrap().fin = Some(back);
                        self.out.goals.push("nonblocking-deferred-ok");
                        self.audit(&format!("after op {idx} (deferred non-blocking commit)"))?;
                        return Ok(());
                    }
                    Ok(Some(_)) => {
                        return Err(viol(
                            "nonblocking-deferred",
                            format!("op {idx}: try_commit_nonblocking deferred with no session alive"),
                        ))
                    }
                    Err(e) => {
                        if base_ok && history_intact {
                            return Err(viol(
                                "valid-commit-refused",
                                format!("op {idx}: changeset {id} refused although its base is current: {e:#}"),
                            ));
                        }
                        self.out.goals.push("stale-commit-rejected");
                        self.out.nontrivial = true;
                        if self.n().is_poisoned() {
                            return Err(viol(
                                "rejected-commit-poisoned",
                                format!("op {idx}: rejected commit poisoned the store"),
                            ));
                        }
                    }
                }
                self.audit(&format!("after op {idx} ({name} {id})"))?;
            }
            _ => panic!("unknown op {name}"),
        }
        Ok(())
    }
}

fn batch_desc(b: &Batch) -> String {
    b.iter()
        .map(|(k, a)| {
            format!(
                "{}:{}",
                kshort(k),
                match a {
                    Act::Read => "r".to_string(),
                    Act::Write(None) => "d".to_string(),
                    Act::Write(Some(v)) => format!("w{}", v.len()),
                    Act::ReadThenWrite(None) => "rd".to_string(),
                    Act::ReadThenWrite(Some(v)) => format!("rw{}", v.len()),
                }
            )
        })
        .collect::<Vec<_>>()
        .join(",")
}

/// C06: the witness verifies against the previous root, attests exactly what the session read,
/// covers every written key, and replaying the writes yields the new root.
pub fn check_witness(
    w: &nomt::Witness,
    batch: &Batch,
    view: &Kv,
    prev_root: [u8; 32],
    new_root: [u8; 32],
    ref_new_root: [u8; 32],
) -> Result<(), String> {
    use bitvec::prelude::*;
    use nomt::hasher::ValueHasher;
    use nomt::proof::PathUpdate;
    let ref_prev = refmodel::root::<B3>(view);
    if prev_root != ref_prev {
        return Err(format!("session prev_root {} != reference {}", hex(&prev_root[..6]), hex(&ref_prev[..6])));
    }
    let mut verified = vec![];
    for (i, wp) in w.path_proofs.iter().enumerate() {
        let vp = wp
            .inner
            .verify::<B3>(wp.path.path(), prev_root)
            .map_err(|e| format!("witnessed path {i} does not verify against the previous root: {e:?}"))?;
        verified.push(vp);
    }
    // reads
    let mut read_keys: Vec<Key> = vec![];
    for r in &w.operations.reads {
        let vp = verified.get(r.path_index).ok_or_else(|| format!("read of {} has path_index {} out of range", kshort(&r.key), r.path_index))?;
        let truth = view.get(&r.key).map(|v| <B3 as ValueHasher>::hash_value(v));
        if r.value != truth {
            return Err(format!("witnessed read of {} attests {:?} but the session observed {:?}", kshort(&r.key), r.value.map(|h| hex(&h[..4])), truth.map(|h| hex(&h[..4]))));
        }
        let ok = match r.value {
            Some(vh) => vp.confirm_value(&nomt::trie::LeafData { key_path: r.key, value_hash: vh }),
            None => vp.confirm_nonexistence(&r.key),
        };
        if !matches!(ok, Ok(true)) {
            return Err(format!("witnessed read of {} is not confirmed by its path proof: {ok:?}", kshort(&r.key)));
        }
        read_keys.push(r.key);
    }
    let want_reads: Vec<Key> = batch.iter().filter(|(_, a)| matches!(a, Act::Read | Act::ReadThenWrite(_))).map(|(k, _)| *k).collect();
    for k in &want_reads {
        if !read_keys.contains(k) {
            return Err(format!("read key {} is not in the witness", kshort(k)));
        }
    }
    // writes
    let want_writes = writes_of(batch);
    let mut got: Vec<(Key, Option<[u8; 32]>, usize)> = w.operations.writes.iter().map(|x| (x.key, x.value, x.path_index)).collect();
    got.sort();
    for (k, v) in &want_writes {
        let h = v.as_ref().map(|v| <B3 as ValueHasher>::hash_value(v));
        match got.iter().find(|(gk, _, _)| gk == k) {
            None => return Err(format!("written key {} is not covered by the witness", kshort(k))),
            Some((_, gv, pi)) => {
                if *gv != h {
                    return Err(format!("witnessed write of {} carries a different value hash", kshort(k)));
                }
                let vp = verified.get(*pi).ok_or_else(|| format!("write of {} has path_index {pi} out of range", kshort(k)))?;
                if !k.view_bits::<Msb0>().starts_with(vp.path()) {
                    return Err(format!("witnessed write of {} is not in scope of its path {pi}", kshort(k)));
                }
            }
        }
    }
    if got.len() != want_writes.len() {
        return Err(format!("witness has {} writes, the batch {}", got.len(), want_writes.len()));
    }
    // replay
    let mut updates: Vec<PathUpdate> = vec![];
    let mut order: Vec<usize> = (0..verified.len()).collect();
    order.sort_by(|a, b| verified[*a].path().cmp(verified[*b].path()));
    for pi in order {
        let mut ops: Vec<(Key, Option<[u8; 32]>)> = got.iter().filter(|(_, _, p)| *p == pi).map(|(k, v, _)| (*k, *v)).collect();
        ops.sort();
        if !ops.is_empty() {
            updates.push(PathUpdate { inner: verified[pi].clone(), ops });
        }
    }
    let replayed = nomt::proof::verify_update::<B3>(prev_root, &updates).map_err(|e| format!("verify_update over the witnessed writes failed: {e:?}"))?;
    if replayed != new_root {
        return Err(format!("replaying the witnessed writes gives {} but the store reports {}", hex(&replayed[..6]), hex(&new_root[..6])));
    }
    if new_root != ref_new_root {
        return Err(format!("new root {} != reference {}", hex(&new_root[..6]), hex(&ref_new_root[..6])));
    }
    // C07 "… and as the store itself": aggregate the witnessed paths into a multi-proof; it must
    // verify against the previous root and its update verification must give the store's root.
    if !w.path_proofs.is_empty() {
        let mut pp: Vec<&nomt::WitnessedPath> = w.path_proofs.iter().collect();
        pp.sort_by(|a, b| a.path.path().cmp(b.path.path()));
        let distinct = pp.windows(2).all(|x| x[0].path.path() != x[1].path.path());
        if distinct {
            let mp = nomt::proof::MultiProof::from_path_proofs(pp.iter().map(|p| p.inner.clone()).collect());
            let vm = nomt::proof::verify_multi_proof::<B3>(&mp, prev_root)
                .map_err(|e| format!("multi-proof aggregated from the witnessed paths does not verify: {e:?}"))?;
            let mut ops: Vec<(Key, Option<[u8; 32]>)> = got.iter().map(|(k, v, _)| (*k, *v)).collect();
            ops.sort();
            let r = nomt::proof::verify_multi_proof_update::<B3>(&vm, ops)
                .map_err(|e| format!("verify_multi_proof_update over the witnessed writes failed: {e:?}"))?;
            if r != new_root {
                return Err(format!("multi-proof update gives {} but the store reports {}", hex(&r[..6]), hex(&new_root[..6])));
            }
        }
    }
    Ok(())
}

impl HistX {
    /// Materialise the seed of `case` into a fresh directory and return an executor positioned
    /// before the first operation (store not yet opened).
    pub fn start(&mut self, prop: &str, case: &Value) -> Exec {
        let cfg = Cfg::from_json(&case["cfg"]);
        let seed_name = case["seed"].as_str().unwrap_or("empty").to_string();
        let mut uni: Vec<Key> = vec![];
        for u in case["universe"].as_array().unwrap() {
            let u = u.as_str().unwrap();
            if u == "seed:all" {
                uni.extend(seed_keys(&seed_name));
            } else if let Some(rest) = u.strip_prefix("seed:") {
                // seed:<a>,<b>,… indices into the seed's key list
                let keys = seed_keys(&seed_name);
                for i in rest.split(',') {
                    uni.push(keys[i.parse::<usize>().unwrap()]);
                }
            } else {
                uni.extend(universe(u));
            }
        }
        let flags = flags_of(case["audit"].as_str().unwrap_or("all"));
        let mut audit_keys = uni.clone();
        if case["audit_seed_keys"].as_bool().unwrap_or(false) {
            audit_keys.extend(seed_keys(&seed_name));
            audit_keys.sort();
            audit_keys.dedup();
        }
        let dir = self.fresh_dir();
        let seed = self.seed(&seed_name, &cfg);
        seed.image.materialize(&dir).expect("materialize seed");
        let model = seed.model.clone();
        Exec {
            prop: prop.to_string(),
            n: None,
            dir: dir.clone(),
            cfg: cfg.clone(),
            model,
            uni,
            audit_keys,
            flags,
            image: case["image"].as_str().map(|s| s.to_string()),
            bumps: vec![],
            prev_shape: None,
            overlays: BTreeMap::new(),
            last_commit_overlay: None,
            prepared: BTreeMap::new(),
            held: BTreeMap::new(),
            out: Outcome::default(),
            trace: vec![],
            aba_accepted: false,
            quiet: case["quiet"].as_bool().unwrap_or(false),
        }
    }

    pub fn run_history(&mut self, prop: &str, case: &Value) -> Outcome {
        let mut ex = self.start(prop, case);
        let r = std::panic::catch_unwind(std::panic::AssertUnwindSafe(|| -> Result<(), Violation> {
            ex.open()?;
            ex.audit("after opening the seed state")?;
            for (i, op) in case["ops"].as_array().unwrap().iter().enumerate() {
                ex.step(i, op)?;
            }
            if ex.quiet {
                ex.quiet = false;
                ex.audit("after the last operation (no reads in between)")?;
            }
            // probe of the rollback history: one more rollback(1) at the end (served or refused as
            // the model says) makes a stray or a missing rollback record visible whatever the
            // history did last
            if case["final_rollback"].as_bool().unwrap_or(false) && ex.cfg.rollback && ex.held.is_empty() {
                ex.step(9998, &json!({"rb": 1}))?;
            }
            if case["final_reopen"].as_bool().unwrap_or(false) {
                ex.step(9999, &json!({"reopen": {}}))?;
            }
            Ok(())
        }));
        let mut panicked = false;
        let r = match r {
            Ok(r) => r,
            Err(p) => {
                panicked = true;
                let m = if let Some(s) = p.downcast_ref::<&str>() {
                    s.to_string()
                } else if let Some(s) = p.downcast_ref::<String>() {
                    s.clone()
                } else {
                    "<panic>".to_string()
                };
                let loc = crate::panic_location_for(&m);
                Err(viol(&format!("panic@{loc}"), format!("panic during execution: {m} at {loc}")))
            }
        };
        let r = match r {
            Err(v) if ex.aba_accepted => Err(viol(
                "stale-changeset-accepted-after-commit-rollback",
                format!("a changeset prepared before an intervening commit that was then rolled back (same root again) was accepted, after which: {}", v.msg),
            )),
            other => other,
        };
        if panicked {
            // handles may be in an inconsistent state; do not run their destructors
            let out = Outcome {
                violation: r.err(),
                nontrivial: true,
                ..Default::default()
            };
            std::mem::forget(ex);
            return out;
        }
        ex.finish(r)
    }
}

impl Exec {
    pub fn open(&mut self) -> Result<(), Violation> {
        self.n = Some(
            open_nomt::<B3>(&self.dir, &self.cfg).map_err(|e| viol("open-err", format!("open failed: {e:#}")))?,
        );
        Ok(())
    }

    /// Drop every handle and produce the outcome.
    pub fn finish(mut self, r: Result<(), Violation>) -> Outcome {
        self.held.clear();
        self.overlays.clear();
        self.prepared.clear();
        let digest = self.state_digest();
        self.n = None;
        let mut out = self.out;
        out.sig = digest ^ fnv_str(&out.goals.join(","));
        if let Err(v) = r {
            out.violation = Some(v);
        }
        out
    }
}

// ---------------------------------------------------------------------------------------------
// Enumeration of deviation-bounded histories

/// All histories with `d` commit slots over `k` keys where at most `b` key actions (from `acts`)
/// deviate from the empty batch. Each case carries its number of deviations as "bound".
pub fn enum_commit_histories(
    d: usize,
    k: usize,
    bmax: usize,
    acts: &[Value],
    mk: &dyn Fn(Vec<Value>, usize) -> Value,
) -> Vec<Value> {
    fn combos(n: usize, b: usize, start: usize, cur: &mut Vec<usize>, out: &mut Vec<Vec<usize>>) {
        if cur.len() == b {
            out.push(cur.clone());
            return;
        }
        for i in start..n {
            cur.push(i);
            combos(n, b, i + 1, cur, out);
            cur.pop();
        }
    }
    let positions = d * k;
    let mut out = vec![];
    for b in 0..=bmax.min(positions) {
        let mut cs = vec![];
        combos(positions, b, 0, &mut vec![], &mut cs);
        for comb in cs {
            let total = acts.len().pow(b as u32);
            for mut code in 0..total {
                let mut slots: Vec<Vec<Value>> = vec![vec![]; d];
                for &p in comb.iter() {
                    let (slot, key) = (p / k, p % k);
                    let a = acts[code % acts.len()].as_array().unwrap();
                    code /= acts.len();
                    let mut item = vec![json!(key)];
                    item.extend(a.iter().cloned());
                    slots[slot].push(Value::Array(item));
                }
                let ops: Vec<Value> = slots.into_iter().map(|s| json!({"c": s})).collect();
                out.push(mk(ops, b));
            }
        }
    }
    out
}

/// Insert a control op at every position of the history (one extra deviation).
pub fn with_control_everywhere(cases: &[Value], control: &Value) -> Vec<Value> {
    let mut out = vec![];
    for c in cases {
        let ops = c["ops"].as_array().unwrap();
        for pos in 0..=ops.len() {
            let mut o = ops.clone();
            o.insert(pos, control.clone());
            let mut nc = c.clone();
            nc["ops"] = Value::Array(o);
            nc["bound"] = json!(c["bound"].as_u64().unwrap() + 1);
            out.push(nc);
        }
    }
    out
}

/// The same histories with every commit made through an overlay: `chained == false` turns each
/// `c` into "create overlay on the committed state, commit it"; `chained == true` first creates all
/// overlays as one chain (each on top of the previous ones) and then commits them in order.
pub fn via_overlays(cases: &[Value], chained: bool) -> Vec<Value> {
    let mut out = vec![];
    for c in cases {
        let Some(ops) = c.get("ops").and_then(|o| o.as_array()) else { continue };
        if ops.is_empty() || ops.iter().any(|o| o.get("c").is_none()) {
            continue;
        }
        if chained && ops.len() < 2 {
            continue;
        }
        let mut nops = vec![];
        if chained {
            for (i, o) in ops.iter().enumerate() {
                let on: Vec<usize> = (0..i).rev().collect();
                nops.push(json!({"ov": {"id": i, "on": on, "b": o["c"]}}));
            }
            for i in 0..ops.len() {
                nops.push(json!({"ovc": i}));
            }
        } else {
            for (i, o) in ops.iter().enumerate() {
                nops.push(json!({"ov": {"id": i, "on": [], "b": o["c"]}}));
                nops.push(json!({"ovc": i}));
            }
        }
        let mut n = c.clone();
        n["ops"] = Value::Array(nops);
        n["via_overlays"] = json!(if chained { "chain" } else { "each" });
        out.push(n);
    }
    out
}

/// Adds, for every history that starts from a non-empty seed state or reopens the store, a copy
/// that performs no reads between its operations (`quiet`): the per-step audit warms the leaf and
/// page caches, so only the quiet copy lets an operation meet the caches as a reopen left them.
/// `every` thins the copies out (1 = all).
pub fn add_quiet(cases: &mut Vec<Value>, every: usize) {
    let mut extra = vec![];
    let mut k = 0usize;
    for c in cases.iter() {
        if c.get("mode").is_some() || c.get("harness").is_some() || c.get("ops").is_none() {
            continue;
        }
        let ops = c["ops"].as_array().unwrap();
        if ops.is_empty() {
            continue;
        }
        let reopens = ops.iter().any(|o| o.get("reopen").is_some());
        if c["seed"].as_str().unwrap_or("empty") == "empty" && !reopens {
            continue;
        }
        k += 1;
        if k % every != 0 {
            continue;
        }
        let mut q = c.clone();
        q["quiet"] = json!(true);
        extra.push(q);
    }
    cases.extend(extra);
}

/// Order: by bound (deviation count) first; within a bound the small, targeted families (few
/// cases for their seed/universe/configuration) come before the bulk enumerations, so that a
/// run cut short by its wall-clock budget loses the tail of the largest family and nothing else.
/// Copies of every `every`-th history case run on the adversarial device (completions of a burst
/// of I/O delivered newest first).
/// Every `every`-th history once more with the page pool handing out buffers filled with `byte`
/// ("the contents of the page are undefined").
pub fn add_pool_poison(cases: &mut Vec<Value>, every: usize, byte: u8) {
    let mut extra = vec![];
    for (i, c) in cases.iter().enumerate() {
        if i % every != 0 || c.get("ops").is_none() || c.get("cfg").is_none() {
            continue;
        }
        let mut n = c.clone();
        n["cfg"]["pool_poison"] = json!(byte);
        extra.push(n);
    }
    cases.extend(extra);
}

pub fn add_io_reverse(cases: &mut Vec<Value>, every: usize) {
    let mut extra = vec![];
    for (i, c) in cases.iter().enumerate() {
        if i % every != 0 || c.get("ops").is_none() || c.get("cfg").is_none() {
            continue;
        }
        let mut n = c.clone();
        n["cfg"]["io_reverse"] = json!(true);
        extra.push(n);
    }
    cases.extend(extra);
}

pub fn sort_by_bound(cases: &mut Vec<Value>) {
    let family = |c: &Value| -> String {
        let h = if c.get("hist").is_some() { &c["hist"] } else { c };
        format!("{}|{}|{}|{}", c["bound"], h["seed"], h["universe"], h["cfg"])
    };
    let mut sizes: std::collections::HashMap<String, usize> = std::collections::HashMap::new();
    for c in cases.iter() {
        *sizes.entry(family(c)).or_insert(0) += 1;
    }
    cases.sort_by_cached_key(|c| (c["bound"].as_u64().unwrap_or(0), sizes[&family(c)]));
}

impl Engine for HistX {
    fn plan(&self, prop: &str, tier: &str) -> Plan {
        crate::plans::hist_plan(prop, tier)
    }
    fn run(&mut self, prop: &str, case: &Value) -> Outcome {
        self.run_history(prop, case)
    }
}
