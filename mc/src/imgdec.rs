//! Independent decoder of the on-disk image, written from the documented layouts only
//! (leaf/node.rs header comment, branch/node.rs header comment, ops/overflow.rs header comment,
//! free_list.rs page layout comment, store/meta.rs field list, bitbox/ht_file.rs,
//! bitbox/meta_map.rs, page_cache.rs / core/page.rs page layout, core/page_id.rs encoding,
//! seglog record header). It shares no code with `nomt`; only the hash functions come from the
//! hasher (and xxh3 from `twox-hash` for the bucket probe sequence).

use crate::refmodel::Kv;
use crate::util::{bit, hex, DirImage, Key, SparseFile, PAGE};
use nomt_core::hasher::{NodeHasher, ValueHasher};
use nomt_core::trie::{InternalData, LeafData, Node, TERMINATOR};
use std::collections::{BTreeMap, BTreeSet, HashMap};

#[derive(Clone, Debug, PartialEq)]
pub struct Meta {
    pub ln_freelist_pn: u32,
    pub ln_bump: u32,
    pub bbn_freelist_pn: u32,
    pub bbn_bump: u32,
    pub sync_seqn: u32,
    pub buckets: u32,
    pub seed: [u8; 16],
    pub rb_start: u64,
    pub rb_end: u64,
}

fn u16le(b: &[u8]) -> u16 {
    u16::from_le_bytes([b[0], b[1]])
}
fn u32le(b: &[u8]) -> u32 {
    u32::from_le_bytes([b[0], b[1], b[2], b[3]])
}
fn u64le(b: &[u8]) -> u64 {
    let mut a = [0u8; 8];
    a.copy_from_slice(&b[..8]);
    u64::from_le_bytes(a)
}

pub fn decode_meta(img: &DirImage) -> Result<Meta, String> {
    let f = img.files.get("meta").ok_or("no meta file")?;
    let p = f.page(0);
    if &p[0..4] != b"NOMT" {
        return Err(format!("meta magic is {:?}", &p[0..4]));
    }
    let mut seed = [0u8; 16];
    seed.copy_from_slice(&p[32..48]);
    Ok(Meta {
        ln_freelist_pn: u32le(&p[8..]),
        ln_bump: u32le(&p[12..]),
        bbn_freelist_pn: u32le(&p[16..]),
        bbn_bump: u32le(&p[20..]),
        sync_seqn: u32le(&p[24..]),
        buckets: u32le(&p[28..]),
        seed,
        rb_start: u64le(&p[48..]),
        rb_end: u64le(&p[56..]),
    })
}

#[derive(Clone, Debug, Default)]
pub struct FreeList {
    /// pages that store the list itself, head first
    pub list_pages: Vec<u32>,
    /// free page numbers
    pub entries: Vec<u32>,
}

pub fn decode_freelist(f: &SparseFile, head: u32, bump: u32) -> Result<FreeList, String> {
    let mut fl = FreeList::default();
    let mut pn = head;
    let mut seen = BTreeSet::new();
    while pn != 0 {
        if pn >= bump {
            return Err(format!("free-list page {pn} is not below the bump {bump}"));
        }
        if !seen.insert(pn) {
            return Err(format!("free-list chain revisits page {pn}"));
        }
        fl.list_pages.push(pn);
        let p = f.page(pn as u64);
        let prev = u32le(&p[0..]);
        let n = u16le(&p[4..]) as usize;
        if 6 + n * 4 > PAGE {
            return Err(format!("free-list page {pn} claims {n} entries"));
        }
        if n == 0 {
            return Err(format!("free-list page {pn} is empty"));
        }
        for i in 0..n {
            fl.entries.push(u32le(&p[6 + 4 * i..]));
        }
        pn = prev;
    }
    Ok(fl)
}

#[derive(Clone, Debug)]
pub struct Bbn {
    pub pn: u32,
    pub prefix_compressed: usize,
    pub prefix_len: usize,
    pub keys: Vec<Key>,
    pub ptrs: Vec<u32>,
}

fn get_bit(bytes: &[u8], i: usize) -> bool {
    (bytes[i / 8] >> (7 - i % 8)) & 1 == 1
}

fn set_bit(k: &mut Key, i: usize) {
    k[i / 8] |= 0x80 >> (i % 8);
}

pub fn decode_bbn(page: &[u8], pn: u32) -> Result<Bbn, String> {
    let label = u32le(&page[0..]);
    if label != pn {
        return Err(format!("branch page {pn} carries bbn_pn {label}"));
    }
    let n = u16le(&page[4..]) as usize;
    let pc = u16le(&page[6..]) as usize;
    let plen = u16le(&page[8..]) as usize;
    if n == 0 {
        return Err(format!("branch page {pn} has no items"));
    }
    if pc > n {
        return Err(format!("branch page {pn}: prefix_compressed {pc} > n {n}"));
    }
    if 10 + 2 * n + 4 * n > PAGE {
        return Err(format!("branch page {pn}: n {n} too large"));
    }
    let cells: Vec<usize> = (0..n).map(|i| u16le(&page[10 + 2 * i..]) as usize).collect();
    let sep_start = 10 + 2 * n;
    let bits = &page[sep_start..];
    let total_bits = plen + cells[n - 1];
    if sep_start + (total_bits + 7) / 8 > PAGE - 4 * n {
        return Err(format!("branch page {pn}: separators overlap node pointers"));
    }
    let mut keys = vec![];
    for i in 0..n {
        let s = if i == 0 { 0 } else { cells[i - 1] };
        let e = cells[i];
        if e < s {
            return Err(format!("branch page {pn}: cell offsets not monotone at {i}"));
        }
        let mut k = [0u8; 32];
        let mut out = 0usize;
        if i < pc {
            for b in 0..plen {
                if get_bit(bits, b) {
                    set_bit(&mut k, out);
                }
                out += 1;
            }
        }
        if out + (e - s) > 256 {
            return Err(format!("branch page {pn}: separator {i} longer than 256 bits"));
        }
        for b in s..e {
            if get_bit(bits, plen + b) {
                set_bit(&mut k, out);
            }
            out += 1;
        }
        keys.push(k);
    }
    let ptrs: Vec<u32> = (0..n).map(|i| u32le(&page[PAGE - 4 * (n - i)..])).collect();
    Ok(Bbn {
        pn,
        prefix_compressed: pc,
        prefix_len: plen,
        keys,
        ptrs,
    })
}

#[derive(Clone, Debug)]
pub enum Cell {
    Inline(Vec<u8>),
    Overflow { size: usize, hash: [u8; 32], pages: Vec<u32> },
}

#[derive(Clone, Debug)]
pub struct Leaf {
    pub pn: u32,
    pub cells: Vec<(Key, Cell)>,
    pub body_used: usize,
}

pub fn decode_leaf(page: &[u8], pn: u32) -> Result<Leaf, String> {
    let n = u16le(&page[0..]) as usize;
    if n == 0 {
        return Err(format!("leaf page {pn} has no cells"));
    }
    if 2 + 34 * n > PAGE {
        return Err(format!("leaf page {pn}: n {n} too large"));
    }
    let mut offs = vec![];
    let mut keys = vec![];
    for i in 0..n {
        let c = &page[2 + 34 * i..2 + 34 * (i + 1)];
        let mut k = [0u8; 32];
        k.copy_from_slice(&c[..32]);
        let raw = u16le(&c[32..]);
        offs.push(((raw & 0x7fff) as usize, raw & 0x8000 != 0));
        keys.push(k);
    }
    let mut cells = vec![];
    for i in 0..n {
        let (s, ov) = offs[i];
        let e = if i + 1 < n { offs[i + 1].0 } else { PAGE };
        if s < 2 + 34 * n || e < s || e > PAGE {
            return Err(format!("leaf page {pn}: cell {i} has range {s}..{e}"));
        }
        let raw = &page[s..e];
        let cell = if ov {
            if raw.len() < 8 + 32 + 4 || raw.len() % 4 != 0 {
                return Err(format!("leaf page {pn}: overflow cell {i} has length {}", raw.len()));
            }
            let size = u64le(&raw[0..]) as usize;
            let mut hash = [0u8; 32];
            hash.copy_from_slice(&raw[8..40]);
            let pages = raw[40..].chunks(4).map(u32le).collect();
            Cell::Overflow { size, hash, pages }
        } else {
            Cell::Inline(raw.to_vec())
        };
        cells.push((keys[i], cell));
    }
    Ok(Leaf {
        pn,
        cells,
        body_used: 34 * n + (PAGE - offs[0].0),
    })
}

/// Reassemble an overflow value; returns (value, every page of the chain in order).
pub fn read_overflow(ln: &SparseFile, size: usize, cell_pages: &[u32], bump: u32) -> Result<(Vec<u8>, Vec<u32>), String> {
    let mut queue: Vec<u32> = cell_pages.to_vec();
    let mut value = Vec::with_capacity(size);
    let mut i = 0;
    while i < queue.len() {
        let pn = queue[i];
        if pn == 0 || pn >= bump {
            return Err(format!("overflow page {pn} is outside [1, {bump})"));
        }
        if queue.len() > (size / 4000) + 64 {
            return Err("overflow chain longer than the value can need".into());
        }
        let p = ln.page(pn as u64);
        let np = u16le(&p[0..]) as usize;
        let nb = u16le(&p[2..]) as usize;
        if 4 + 4 * np + nb > PAGE {
            return Err(format!("overflow page {pn}: {np} pointers + {nb} bytes do not fit"));
        }
        for j in 0..np {
            queue.push(u32le(&p[4 + 4 * j..]));
        }
        value.extend_from_slice(&p[4 + 4 * np..4 + 4 * np + nb]);
        i += 1;
    }
    if value.len() != size {
        return Err(format!("overflow value reassembles to {} bytes, cell says {}", value.len(), size));
    }
    Ok((value, queue))
}

// ---------------------------------------------------------------------------------------------
// Value files

#[derive(Default, Debug)]
pub struct ValueImage {
    pub kv: Kv,
    pub bbns: Vec<Bbn>,
    pub leaves: Vec<Leaf>,
    pub ln_free: FreeList,
    pub bbn_free: FreeList,
    /// every ln page in use → what uses it
    pub ln_used: BTreeMap<u32, String>,
    pub bbn_used: BTreeSet<u32>,
    pub overflow_values: usize,
    pub pointer_page_values: usize,
}

/// Decode ln/bbn into the key-value map and the page accounting, checking well-formedness.
pub fn decode_values<H: ValueHasher>(img: &DirImage, meta: &Meta) -> Result<ValueImage, String> {
    let ln = img.files.get("ln").ok_or("no ln file")?;
    let bbn = img.files.get("bbn").ok_or("no bbn file")?;
    let mut v = ValueImage::default();
    if (meta.ln_bump as u64) * PAGE as u64 > ln.len.max(PAGE as u64) && meta.ln_bump > 1 {
        return Err(format!("ln bump {} beyond file length {}", meta.ln_bump, ln.len));
    }
    if (meta.bbn_bump as u64) * PAGE as u64 > bbn.len.max(PAGE as u64) && meta.bbn_bump > 1 {
        return Err(format!("bbn bump {} beyond file length {}", meta.bbn_bump, bbn.len));
    }
    v.ln_free = decode_freelist(ln, meta.ln_freelist_pn, meta.ln_bump).map_err(|e| format!("ln: {e}"))?;
    v.bbn_free = decode_freelist(bbn, meta.bbn_freelist_pn, meta.bbn_bump).map_err(|e| format!("bbn: {e}"))?;
    let bbn_tracked: BTreeSet<u32> = v.bbn_free.list_pages.iter().chain(v.bbn_free.entries.iter()).cloned().collect();
    // all branch nodes below the bump that the free list does not track
    for pn in 1..meta.bbn_bump {
        if bbn_tracked.contains(&pn) {
            continue;
        }
        let page = bbn.page(pn as u64);
        if page.iter().all(|b| *b == 0) {
            // an all-zero page below the bump that nobody tracks: reported by the leak accounting
            continue;
        }
        let node = decode_bbn(&page, pn)?;
        v.bbn_used.insert(pn);
        v.bbns.push(node);
    }
    v.bbns.sort_by(|a, b| a.keys[0].cmp(&b.keys[0]));
    // separators strictly increasing inside and across branch nodes
    let mut all_seps: Vec<(Key, u32, u32)> = vec![];
    for b in &v.bbns {
        for (k, p) in b.keys.iter().zip(b.ptrs.iter()) {
            all_seps.push((*k, *p, b.pn));
        }
    }
    for w in all_seps.windows(2) {
        if w[0].0 >= w[1].0 {
            return Err(format!(
                "separators not strictly increasing: {} (bbn {}) then {} (bbn {})",
                hex(&w[0].0[..6]),
                w[0].2,
                hex(&w[1].0[..6]),
                w[1].2
            ));
        }
    }
    // leaves
    for (i, (sep, lpn, bpn)) in all_seps.iter().enumerate() {
        if *lpn == 0 || *lpn >= meta.ln_bump {
            return Err(format!("bbn {bpn} points to leaf page {lpn} outside [1, {})", meta.ln_bump));
        }
        if let Some(prev) = v.ln_used.insert(*lpn, format!("leaf under bbn {bpn}")) {
            return Err(format!("ln page {lpn} is used twice: as leaf under bbn {bpn} and as {prev}"));
        }
        let leaf = decode_leaf(&ln.page(*lpn as u64), *lpn)?;
        let next_sep = all_seps.get(i + 1).map(|x| x.0);
        for (j, (k, cell)) in leaf.cells.iter().enumerate() {
            if j > 0 && leaf.cells[j - 1].0 >= *k {
                return Err(format!("leaf {lpn}: keys not strictly increasing at cell {j}"));
            }
            if k < sep {
                return Err(format!("leaf {lpn}: key {} below its separator {}", hex(&k[..6]), hex(&sep[..6])));
            }
            if let Some(ns) = next_sep {
                if *k >= ns {
                    return Err(format!("leaf {lpn}: key {} not below the next separator {}", hex(&k[..6]), hex(&ns[..6])));
                }
            }
            let value = match cell {
                Cell::Inline(val) => val.clone(),
                Cell::Overflow { size, hash, pages } => {
                    v.overflow_values += 1;
                    let (val, chain) = read_overflow(ln, *size, pages, meta.ln_bump)
                        .map_err(|e| format!("leaf {lpn} key {}: {e}", hex(&k[..6])))?;
                    if chain.len() > pages.len() {
                        v.pointer_page_values += 1;
                    }
                    if H::hash_value(&val) != *hash {
                        return Err(format!("leaf {lpn} key {}: overflow value hash mismatch", hex(&k[..6])));
                    }
                    for p in chain {
                        if let Some(prev) = v.ln_used.insert(p, format!("overflow page of key {}", hex(&k[..6]))) {
                            return Err(format!("ln page {p} is used twice: overflow page of key {} and {prev}", hex(&k[..6])));
                        }
                    }
                    val
                }
            };
            if v.kv.insert(*k, value).is_some() {
                return Err(format!("key {} lives in two leaves", hex(&k[..6])));
            }
        }
        v.leaves.push(leaf);
    }
    Ok(v)
}

/// `[1, bump) = used ⊎ free` for one file. Returns a description of the first discrepancy.
pub fn page_accounting(name: &str, bump: u32, used: &BTreeSet<u32>, free: &FreeList) -> Result<(), String> {
    let mut tracked: BTreeMap<u32, &str> = BTreeMap::new();
    for p in &free.list_pages {
        if tracked.insert(*p, "free-list page").is_some() {
            return Err(format!("{name}: page {p} appears twice in the free list structure"));
        }
    }
    for p in &free.entries {
        if *p == 0 || *p >= bump {
            return Err(format!("{name}: free page {p} outside [1, {bump})"));
        }
        if let Some(prev) = tracked.insert(*p, "free entry") {
            return Err(format!("{name}: page {p} is on the free list twice ({prev} and free entry)"));
        }
    }
    for p in used {
        if tracked.contains_key(p) {
            return Err(format!("{name}: page {p} is both in use and on the free list"));
        }
    }
    let mut leaked = vec![];
    for p in 1..bump {
        if !used.contains(&p) && !tracked.contains_key(&p) {
            leaked.push(p);
        }
    }
    if !leaked.is_empty() {
        return Err(format!(
            "{name}: {} page(s) below the bump {bump} are neither in use nor free (leaked), first {:?}",
            leaked.len(),
            &leaked[..leaked.len().min(8)]
        ));
    }
    Ok(())
}

// ---------------------------------------------------------------------------------------------
// Merkle page table

/// Page id bytes from a path of child indices (each 0..64): base-64 digits (index+1), followed
/// by one zero digit, as a 256-bit big-endian number (core/page_id.rs `encode`).
pub fn page_id_bytes(path: &[u8]) -> [u8; 32] {
    let mut n = [0u8; 32];
    for limb in path {
        add_small(&mut n, *limb as u16 + 1);
        shl6(&mut n);
    }
    n
}

fn add_small(n: &mut [u8; 32], x: u16) {
    let mut carry = x as u32;
    for i in (0..32).rev() {
        let s = n[i] as u32 + (carry & 0xff);
        n[i] = s as u8;
        carry = (carry >> 8) + (s >> 8);
        if carry == 0 {
            break;
        }
    }
}

fn shl6(n: &mut [u8; 32]) {
    let mut carry = 0u16;
    for i in (0..32).rev() {
        let v = ((n[i] as u16) << 6) | carry;
        n[i] = v as u8;
        carry = v >> 8;
    }
}

/// Inverse of `page_id_bytes`: drop the trailing zero sextet, then read bijective base-64 digits.
pub fn page_path_from_bytes(b: &[u8; 32]) -> Result<Vec<u8>, String> {
    let mut n = *b;
    if n.iter().all(|x| *x == 0) {
        return Ok(vec![]);
    }
    if n[31] & 0x3f != 0 {
        return Err(format!("page id {} does not end in a zero sextet", hex(b)));
    }
    shr6(&mut n);
    let mut path = vec![];
    while n.iter().any(|x| *x != 0) {
        // n -= 1
        for i in (0..32).rev() {
            if n[i] == 0 {
                n[i] = 0xff;
            } else {
                n[i] -= 1;
                break;
            }
        }
        path.push(n[31] & 0x3f);
        shr6(&mut n);
        if path.len() > 43 {
            return Err(format!("page id {} is too deep", hex(b)));
        }
    }
    path.reverse();
    if page_id_bytes(&path) != *b {
        return Err(format!("page id {} does not round-trip", hex(b)));
    }
    Ok(path)
}

fn shr6(n: &mut [u8; 32]) {
    let mut carry = 0u16;
    for i in 0..32 {
        let v = (carry << 8) | n[i] as u16;
        n[i] = (v >> 6) as u8;
        carry = v & 0x3f;
    }
}

pub fn page_hash(id: &[u8; 32], seed: &[u8; 16]) -> u64 {
    let mut s = [0u8; 8];
    s.copy_from_slice(&seed[..8]);
    twox_hash::xxhash3_64::Hasher::oneshot_with_seed(u64::from_be_bytes(s), id)
}

pub fn full_entry(hash: u64) -> u8 {
    ((hash >> 57) as u8) ^ 0x80
}

pub struct HtImage<'a> {
    pub buckets: u64,
    pub meta: Vec<u8>,
    pub data_offset: u64,
    pub file: &'a SparseFile,
    pub seed: [u8; 16],
}

impl<'a> HtImage<'a> {
    pub fn new(img: &'a DirImage, meta: &Meta) -> Result<Self, String> {
        let f = img.files.get("ht").ok_or("no ht file")?;
        let meta_pages = (meta.buckets as u64 + 4095) / 4096;
        let want = (meta_pages + meta.buckets as u64) * PAGE as u64;
        if f.len != want {
            return Err(format!("ht file length {} != expected {}", f.len, want));
        }
        let mut m = Vec::with_capacity((meta_pages * 4096) as usize);
        for p in 0..meta_pages {
            m.extend_from_slice(&f.page(p));
        }
        m.truncate(meta.buckets as usize);
        Ok(HtImage {
            buckets: meta.buckets as u64,
            meta: m,
            data_offset: meta_pages,
            file: f,
            seed: meta.seed,
        })
    }

    pub fn bucket_page(&self, b: u64) -> Vec<u8> {
        self.file.page(self.data_offset + b)
    }

    pub fn full_buckets(&self) -> Vec<u64> {
        (0..self.buckets).filter(|b| self.meta[*b as usize] & 0x80 != 0).collect()
    }

    /// Replay the probe sequence for `id`; returns the bucket where the page labelled `id` is
    /// found, and the number of probes that hit a full bucket with a matching tag but another page.
    pub fn probe(&self, id: &[u8; 32]) -> (Option<u64>, usize) {
        let h = page_hash(id, &self.seed);
        let tag = full_entry(h);
        let mut bucket = h % self.buckets;
        let mut step = 0u64;
        let mut misprobes = 0;
        for _ in 0..(4 * self.buckets + 16) {
            bucket = (bucket + step) % self.buckets;
            step += 1;
            let m = self.meta[bucket as usize];
            if m == 0 {
                return (None, misprobes);
            }
            if m == 0x7f || m != tag {
                continue;
            }
            let page = self.bucket_page(bucket);
            if page[PAGE - 32..] == id[..] {
                return (Some(bucket), misprobes);
            }
            misprobes += 1;
        }
        (None, misprobes)
    }
}

#[derive(Default, Debug)]
pub struct MerkleReport {
    pub stored_pages: usize,
    pub reachable_stored: usize,
    pub elided_needed: usize,
    pub nodes_compared: usize,
    pub tombstones: usize,
    pub misprobes: usize,
    pub max_page_depth: usize,
}

/// Reference trie as a map from position (depth, path with bits beyond depth zeroed) to node and
/// number of leaves below, for every position whose parent is internal (plus the root).
pub struct RefTrie {
    pub nodes: HashMap<(u16, Key), (Node, usize)>,
    pub root: Node,
    pub n: usize,
}

impl RefTrie {
    pub fn build<H: NodeHasher + ValueHasher>(kv: &Kv) -> Self {
        let leaves: Vec<(Key, [u8; 32])> = kv.iter().map(|(k, v)| (*k, H::hash_value(v))).collect();
        let mut nodes = HashMap::new();
        fn rec<H: NodeHasher>(
            set: &[(Key, [u8; 32])],
            depth: usize,
            path: Key,
            nodes: &mut HashMap<(u16, Key), (Node, usize)>,
        ) -> Node {
            let node = match set.len() {
                0 => TERMINATOR,
                1 => H::hash_leaf(&LeafData {
                    key_path: set[0].0,
                    value_hash: set[0].1,
                }),
                _ => {
                    let split = set.partition_point(|(k, _)| !bit(k, depth));
                    let mut rp = path;
                    rp[depth / 8] |= 0x80 >> (depth % 8);
                    let left = rec::<H>(&set[..split], depth + 1, path, nodes);
                    let right = rec::<H>(&set[split..], depth + 1, rp, nodes);
                    H::hash_internal(&InternalData { left, right })
                }
            };
            nodes.insert((depth as u16, path), (node, set.len()));
            node
        }
        let root = rec::<H>(&leaves, 0, [0u8; 32], &mut nodes);
        RefTrie {
            nodes,
            root,
            n: leaves.len(),
        }
    }

    pub fn get(&self, depth: usize, path: &Key) -> Option<(Node, usize)> {
        let mut p = *path;
        let full = depth / 8;
        if full < 32 {
            if depth % 8 == 0 {
                p[full] = 0;
            } else {
                p[full] &= !(0xffu8 >> (depth % 8));
            }
            for b in p.iter_mut().skip(full + 1) {
                *b = 0;
            }
        }
        self.nodes.get(&(depth as u16, p)).cloned()
    }
}

/// Check the stored merkle pages against the reference trie of `kv`.
pub fn check_merkle<H: NodeHasher + ValueHasher>(ht: &HtImage, kv: &Kv) -> Result<MerkleReport, String> {
    let mut rep = MerkleReport::default();
    let reft = RefTrie::build::<H>(kv);
    // every full bucket is found through its own probe sequence, exactly once
    let full = ht.full_buckets();
    rep.stored_pages = full.len();
    rep.tombstones = ht.meta.iter().filter(|m| **m == 0x7f).count();
    let mut by_label: BTreeMap<[u8; 32], u64> = BTreeMap::new();
    for b in &full {
        let page = ht.bucket_page(*b);
        let mut label = [0u8; 32];
        label.copy_from_slice(&page[PAGE - 32..]);
        if let Some(o) = by_label.insert(label, *b) {
            return Err(format!("page {} is stored twice: buckets {o} and {b}", hex(&label[24..])));
        }
        let (found, mis) = ht.probe(&label);
        rep.misprobes += mis;
        if found != Some(*b) {
            return Err(format!(
                "page {} stored in bucket {b} is not reachable through its probe sequence (probe finds {found:?})",
                hex(&label[24..])
            ));
        }
        page_path_from_bytes(&label).map_err(|e| format!("bucket {b}: {e}"))?;
    }
    // walk from the root page
    let mut reachable: BTreeSet<[u8; 32]> = BTreeSet::new();
    // stack of (page path as child indices, position path bits, position depth)
    let mut stack: Vec<(Vec<u8>, Key)> = vec![(vec![], [0u8; 32])];
    while let Some((ppath, pos)) = stack.pop() {
        let pdepth = ppath.len() * 6; // trie depth of the position above this page
        let id = page_id_bytes(&ppath);
        let above = reft.get(pdepth, &pos);
        let needed = matches!(above, Some((_, n)) if n >= 2);
        let stored = by_label.get(&id).cloned();
        if !needed {
            if let Some(b) = stored {
                if ppath.is_empty() {
                    // the root page may exist for a trie with < 2 keys; its two top nodes must be
                    // terminators (the store derives the root from them)
                    let page = ht.bucket_page(b);
                    if page[0..32] != TERMINATOR || page[32..64] != TERMINATOR {
                        return Err("root page of a trie with fewer than two keys has non-terminator top nodes".into());
                    }
                    reachable.insert(id);
                } else {
                    return Err(format!("page at depth {} is stored but the reference trie has no internal node above it", ppath.len()));
                }
            }
            continue;
        }
        let Some(bucket) = stored else {
            if ppath.is_empty() {
                return Err("the root page is not stored although the trie has two or more keys".into());
            }
            // must have been marked elided by the caller (checked there)
            return Err(format!("needed page at page-depth {} (bits {}) is neither stored nor marked elided", ppath.len(), hex(&pos[..(pdepth + 7) / 8])));
        };
        reachable.insert(id);
        rep.reachable_stored += 1;
        rep.max_page_depth = rep.max_page_depth.max(ppath.len());
        let page = ht.bucket_page(bucket);
        let elided = u64le(&page[PAGE - 40..PAGE - 32]);
        // compare nodes layer by layer
        // positions within the page: (rel depth j in 1..=6, index value)
        let mut frontier: Vec<(usize, u64)> = vec![(0, 0)]; // (j, bits value) internal positions
        for j in 1..=6usize {
            let mut next = vec![];
            for (_, val) in frontier.iter() {
                for bitv in 0..2u64 {
                    let v2 = (val << 1) | bitv;
                    // absolute position
                    let mut q = pos;
                    for t in 0..j {
                        let b = (v2 >> (j - 1 - t)) & 1 == 1;
                        let i = pdepth + t;
                        if b {
                            q[i / 8] |= 0x80 >> (i % 8);
                        } else {
                            q[i / 8] &= !(0x80 >> (i % 8));
                        }
                    }
                    let Some((want, nleaves)) = reft.get(pdepth + j, &q) else {
                        return Err("internal error: reference position missing".into());
                    };
                    let idx = (1usize << j) - 2 + v2 as usize;
                    let got = &page[idx * 32..idx * 32 + 32];
                    rep.nodes_compared += 1;
                    if got != want {
                        return Err(format!(
                            "stored node differs from the reference trie: page-depth {} node index {idx} (trie depth {}): stored {} reference {} ({} leaves below)",
                            ppath.len(),
                            pdepth + j,
                            hex(&got[..6]),
                            hex(&want[..6]),
                            nleaves
                        ));
                    }
                    if nleaves >= 2 {
                        if j < 6 {
                            next.push((j, v2));
                        } else {
                            // child page needed
                            let child_idx = v2 as u8; // 6 bits
                            let is_elided = (elided >> child_idx) & 1 == 1;
                            let mut cp = ppath.clone();
                            cp.push(child_idx);
                            let cid = page_id_bytes(&cp);
                            if is_elided {
                                rep.elided_needed += 1;
                                // the child and all its descendants must be absent
                                if let Some(b) = by_label.get(&cid) {
                                    return Err(format!("child page {child_idx} at page-depth {} is marked elided but stored in bucket {b}", cp.len()));
                                }
                                // descendants: any stored page whose path starts with cp
                                for (label, b) in &by_label {
                                    if let Ok(p) = page_path_from_bytes(label) {
                                        if p.len() > cp.len() && p[..cp.len()] == cp[..] {
                                            return Err(format!("a descendant (bucket {b}) of an elided page is stored"));
                                        }
                                    }
                                }
                            } else {
                                stack.push((cp, q));
                            }
                        }
                    }
                }
            }
            frontier = next;
        }
    }
    for (label, b) in &by_label {
        if !reachable.contains(label) {
            let p = page_path_from_bytes(label).unwrap_or_default();
            return Err(format!("stored page at page-depth {} (bucket {b}) is not reachable from the root", p.len()));
        }
    }
    Ok(rep)
}

// ---------------------------------------------------------------------------------------------
// Rollback segments and WAL

#[derive(Debug, Clone)]
pub struct SegRecord {
    pub file: String,
    pub id: u64,
    pub offset: u64,
    pub end: u64,
}

pub fn decode_segments(img: &DirImage) -> Result<Vec<SegRecord>, String> {
    let mut out = vec![];
    for (name, f) in &img.files {
        if !name.starts_with("rollback") {
            continue;
        }
        let mut off = 0u64;
        while off + 12 <= f.len {
            let h = f.read_at(off, 12);
            let plen = u32le(&h[0..]) as u64;
            let id = u64le(&h[4..]);
            if id == 0 && plen == 0 {
                break;
            }
            let end = ((off + 12 + plen + 4095) / 4096) * 4096;
            out.push(SegRecord {
                file: name.clone(),
                id,
                offset: off,
                end,
            });
            off = end;
        }
    }
    out.sort_by_key(|r| r.id);
    Ok(out)
}

// ---------------------------------------------------------------------------------------------
// Whole-image check

#[derive(Default, Debug)]
pub struct ImageReport {
    pub keys: usize,
    pub leaves: usize,
    pub bbns: usize,
    pub overflow_values: usize,
    pub pointer_page_values: usize,
    pub ln_free: usize,
    pub ln_free_pages: usize,
    pub bbn_free: usize,
    pub merkle: MerkleReport,
    pub ln_bump: u32,
    pub bbn_bump: u32,
    pub full_buckets: usize,
}

pub struct CheckOpts {
    pub structure: bool,
    pub kv_equals_model: bool,
    pub merkle: bool,
    pub leaks: bool,
}

pub fn check_image<H: NodeHasher + ValueHasher>(img: &DirImage, model_kv: &Kv, opts: &CheckOpts) -> Result<ImageReport, String> {
    let meta = decode_meta(img)?;
    let mut rep = ImageReport::default();
    rep.ln_bump = meta.ln_bump;
    rep.bbn_bump = meta.bbn_bump;
    let vals = decode_values::<H>(img, &meta)?;
    rep.keys = vals.kv.len();
    rep.leaves = vals.leaves.len();
    rep.bbns = vals.bbns.len();
    rep.overflow_values = vals.overflow_values;
    rep.pointer_page_values = vals.pointer_page_values;
    rep.ln_free = vals.ln_free.entries.len();
    rep.ln_free_pages = vals.ln_free.list_pages.len();
    rep.bbn_free = vals.bbn_free.entries.len();
    if opts.kv_equals_model && vals.kv != *model_kv {
        // describe the first difference
        for (k, v) in model_kv {
            match vals.kv.get(k) {
                None => return Err(format!("key {} of the model is not in any leaf", hex(&k[..6]))),
                Some(w) if w != v => return Err(format!("key {} decodes to a different value ({} vs {} bytes)", hex(&k[..6]), w.len(), v.len())),
                _ => {}
            }
        }
        for k in vals.kv.keys() {
            if !model_kv.contains_key(k) {
                return Err(format!("leaf holds key {} which the model does not have", hex(&k[..6])));
            }
        }
    }
    if opts.leaks {
        let ln_used: BTreeSet<u32> = vals.ln_used.keys().cloned().collect();
        page_accounting("ln", meta.ln_bump, &ln_used, &vals.ln_free)?;
        page_accounting("bbn", meta.bbn_bump, &vals.bbn_used, &vals.bbn_free)?;
    } else if opts.structure {
        // used ∩ free = ∅ only
        let tracked: BTreeSet<u32> = vals.ln_free.list_pages.iter().chain(vals.ln_free.entries.iter()).cloned().collect();
        for p in vals.ln_used.keys() {
            if tracked.contains(p) {
                return Err(format!("ln: page {p} is both in use and on the free list"));
            }
        }
    }
    let ht = HtImage::new(img, &meta)?;
    rep.full_buckets = ht.full_buckets().len();
    if opts.merkle {
        let kv = if opts.kv_equals_model { model_kv } else { &vals.kv };
        rep.merkle = check_merkle::<H>(&ht, kv)?;
    }
    Ok(rep)
}
