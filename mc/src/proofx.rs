//! `proofx`: exhaustive exploration of the pure proof verifiers of `nomt-core` over all tries
//! on a small key family, all proof subsets, all write sets, and a finite mutation grammar.
//!
//! Truth always comes from the key-value set (the independent reference trie), never from the
//! verifier under test.

use crate::engine::{fnv_str, Engine, Outcome, Plan, Violation};
use crate::refmodel;
use crate::util::{self, bit, hex, key_from_bits, Key};
use bitvec::prelude::*;
use nomt_core::hasher::{Blake3Hasher, NodeHasher, ValueHasher};
use nomt_core::proof::{
    verify_multi_proof, verify_multi_proof_update, verify_update, MultiPathProof, MultiProof, PathProof,
    PathProofTerminal, PathUpdate,
};
use nomt_core::trie::{InternalData, LeafData, Node, TERMINATOR};
use nomt_core::trie_pos::TriePosition;
use nomt_core::witness::{Witness, WitnessedOperations, WitnessedPath, WitnessedRead, WitnessedWrite};
use serde_json::{json, Value};
use std::collections::{BTreeMap, BTreeSet};

type H = Blake3Hasher;
type Vh = [u8; 32];

/// The 12-key family: pairs diverging at bits 0,1,2,6,7,12,255 of a base key plus a 4-cluster
/// sharing 20 bits.
pub fn family() -> Vec<Key> {
    let base = key_from_bits("0101101001011010010110100101", false);
    let mut v = vec![base];
    for d in [0usize, 1, 2, 6, 7, 12, 255] {
        v.push(util::flip_bit(&base, d));
    }
    let cbase = util::flip_bit(&base, 3);
    for i in 0..4u8 {
        let mut k = cbase;
        // bits 20,21 number the cluster member
        if i & 2 != 0 {
            k = util::flip_bit(&k, 20);
        }
        if i & 1 != 0 {
            k = util::flip_bit(&k, 21);
        }
        v.push(k);
    }
    v.sort();
    v.dedup();
    assert_eq!(v.len(), 12);
    v
}

/// The 20-key family of the "wide" multi-proof cases: the 12-key family plus eight more keys
/// diverging from the base at bits 3,4,5,8,9,10,11,13.
pub fn family_wide() -> Vec<Key> {
    let base = key_from_bits("0101101001011010010110100101", false);
    let mut v = family();
    for d in [4usize, 5, 8, 9, 10, 11, 13, 14] {
        v.push(util::flip_bit(&base, d));
    }
    v.sort();
    v.dedup();
    assert_eq!(v.len(), 20);
    v
}

fn vh(i: usize, class: u8) -> Vh {
    H::hash_value(&[i as u8, class, 0x5a])
}

struct Trie {
    fam: Vec<Key>,
    leaves: Vec<(Key, Vh)>,
    set: BTreeMap<Key, Vh>,
    root: Node,
}

impl Trie {
    fn new(mask: u32) -> Self {
        Self::with_family(family(), mask)
    }

    fn with_family(fam: Vec<Key>, mask: u32) -> Self {
        let mut set = BTreeMap::new();
        for (i, k) in fam.iter().enumerate() {
            if mask >> i & 1 == 1 {
                set.insert(*k, vh(i, 0));
            }
        }
        let leaves: Vec<(Key, Vh)> = set.iter().map(|(k, v)| (*k, *v)).collect();
        let root = refmodel::root_of_leaves::<H>(&leaves);
        Trie {
            fam,
            leaves,
            set,
            root,
        }
    }

    /// A trie over `fam` in which the keys flagged in `present` exist.
    fn with_present(fam: Vec<Key>, present: &[bool]) -> Self {
        let mut set = BTreeMap::new();
        for (i, k) in fam.iter().enumerate() {
            if present[i] {
                set.insert(*k, vh(i, 0));
            }
        }
        let leaves: Vec<(Key, Vh)> = set.iter().map(|(k, v)| (*k, *v)).collect();
        let root = refmodel::root_of_leaves::<H>(&leaves);
        Trie { fam, leaves, set, root }
    }

    fn honest(&self, key: &Key) -> PathProof {
        let rp = refmodel::path_proof::<H>(&self.leaves, key);
        let terminal = match rp.terminal {
            Some((k, v)) => PathProofTerminal::Leaf(LeafData {
                key_path: k,
                value_hash: v,
            }),
            None => PathProofTerminal::Terminator(if rp.depth == 0 {
                TriePosition::new()
            } else {
                TriePosition::from_path_and_depth(*key, rp.depth as u16)
            }),
        };
        PathProof {
            terminal,
            siblings: rp.siblings,
        }
    }

    fn root_after(&self, ops: &[(Key, Option<Vh>)]) -> Node {
        let mut s = self.set.clone();
        for (k, v) in ops {
            match v {
                Some(v) => {
                    s.insert(*k, *v);
                }
                None => {
                    s.remove(k);
                }
            }
        }
        let l: Vec<(Key, Vh)> = s.into_iter().collect();
        refmodel::root_of_leaves::<H>(&l)
    }
}

fn prefix_eq(a: &Key, b: &Key, n: usize) -> bool {
    (0..n).all(|i| bit(a, i) == bit(b, i))
}

fn subsets_upto(n: usize, kmax: usize) -> Vec<Vec<usize>> {
    fn rec(n: usize, k: usize, start: usize, cur: &mut Vec<usize>, out: &mut Vec<Vec<usize>>) {
        if cur.len() == k {
            out.push(cur.clone());
            return;
        }
        for i in start..n {
            cur.push(i);
            rec(n, k, i + 1, cur, out);
            cur.pop();
        }
    }
    let mut out = vec![];
    for k in 0..=kmax.min(n) {
        rec(n, k, 0, &mut vec![], &mut out);
    }
    out
}

/// All write sets of ≤ `wmax` operations over `keys` (indices into the family): each op is a
/// delete or a write of the key's second value class.
fn write_sets(keys: &[usize], fam: &[Key], wmax: usize) -> Vec<Vec<(Key, Option<Vh>)>> {
    let mut out = vec![];
    for sub in subsets_upto(keys.len(), wmax) {
        if sub.is_empty() {
            continue;
        }
        for code in 0..(1u32 << sub.len()) {
            let mut w: Vec<(Key, Option<Vh>)> = sub
                .iter()
                .enumerate()
                .map(|(j, &si)| {
                    let ki = keys[si];
                    (fam[ki], if code >> j & 1 == 1 { Some(vh(ki, 1)) } else { None })
                })
                .collect();
            w.sort_by(|a, b| a.0.cmp(&b.0));
            out.push(w);
        }
    }
    out
}

pub struct ProofX {
    pub calls: u64,
}

impl ProofX {
    pub fn new() -> Self {
        ProofX { calls: 0 }
    }
}

fn v(fp: &str, msg: String) -> Violation {
    Violation::new(fp, msg)
}

fn term_desc(t: &PathProofTerminal) -> String {
    match t {
        PathProofTerminal::Leaf(l) => format!("Leaf({})", hex(&l.key_path[..4])),
        PathProofTerminal::Terminator(p) => format!("Term(depth {})", p.depth()),
    }
}

// ---------------------------------------------------------------------------------------------
// C07

impl ProofX {
    fn run_c07(&mut self, case: &Value) -> Outcome {
        let mask = case["s"].as_u64().unwrap() as u32;
        let qmax = case["qmax"].as_u64().unwrap() as usize;
        let wmax = case["wmax"].as_u64().unwrap() as usize;
        let t = Trie::new(mask);
        let fam = t.fam.clone();
        let mut out = Outcome::default();
        out.nontrivial = mask != 0;
        let honest: Vec<PathProof> = fam.iter().map(|k| t.honest(k)).collect();
        let mut sigacc = String::new();
        for q in subsets_upto(fam.len(), qmax) {
            if q.is_empty() {
                continue;
            }
            // ordered, de-duplicated path proofs
            let mut proofs: Vec<(usize, PathProof)> = vec![];
            for &qi in &q {
                let p = honest[qi].clone();
                let d = p.siblings.len();
                if proofs.iter().any(|(oi, o)| o.siblings.len() == d && prefix_eq(&fam[qi], &fam[*oi], d)) {
                    continue;
                }
                proofs.push((qi, p));
            }
            // sort by terminal position (the first `depth` bits, shared by lookup key and terminal)
            proofs.sort_by(|a, b| fam[a.0][..].cmp(&fam[b.0][..]));
            let positions: Vec<(Key, usize)> = proofs.iter().map(|(qi, p)| (fam[*qi], p.siblings.len())).collect();
            let mp = MultiProof::from_path_proofs(proofs.iter().map(|(_, p)| p.clone()).collect());
            self.calls += 1;
            let verified = match verify_multi_proof::<H>(&mp, t.root) {
                Ok(vp) => vp,
                Err(e) => {
                    out.violation = Some(v(
                        "multi-verify-honest",
                        format!("honest multi-proof over S={mask:#x} Q={q:?} does not verify: {e:?}"),
                    ));
                    return out;
                }
            };
            out.transitions += 1;
            // individual verified proofs
            let mut singles = vec![];
            for (qi, p) in &proofs {
                match p.verify::<H>(fam[*qi].view_bits::<Msb0>(), t.root) {
                    Ok(vp) => singles.push(vp),
                    Err(e) => {
                        out.violation = Some(v(
                            "path-verify-honest",
                            format!("honest path proof for key #{qi} in S={mask:#x} does not verify: {e:?}"),
                        ));
                        return out;
                    }
                }
            }
            // queries
            for (gi, g) in fam.iter().enumerate() {
                let cover = positions.iter().position(|(k, d)| prefix_eq(g, k, *d));
                let present = t.set.get(g);
                let leaf_true = LeafData {
                    key_path: *g,
                    value_hash: present.cloned().unwrap_or(vh(gi, 0)),
                };
                let leaf_wrong = LeafData {
                    key_path: *g,
                    value_hash: vh(gi, 1),
                };
                let mv = verified.confirm_value(&leaf_true);
                let mw = verified.confirm_value(&leaf_wrong);
                let mn = verified.confirm_nonexistence(g);
                self.calls += 3;
                // the key claimed with the value hash of every OTHER leaf of the trie: false, and the
                // same answer as the path proof covering the key gives
                if cover.is_some() {
                    for (ok_, oh) in t.set.iter() {
                        if ok_ == g {
                            continue;
                        }
                        let claim = LeafData {
                            key_path: *g,
                            value_hash: *oh,
                        };
                        let m = verified.confirm_value(&claim);
                        let s1 = singles[cover.unwrap()].confirm_value(&claim);
                        self.calls += 2;
                        if !matches!(m, Ok(false)) || !matches!(s1, Ok(false)) {
                            out.violation = Some(v(
                                "multi-confirm",
                                format!("S={mask:#x} Q={q:?} key #{gi} present={} claimed with the value hash of another leaf ({}): multi confirm_value={m:?}, single={s1:?}, both must be Ok(false)", present.is_some(), hex(&ok_[..4])),
                            ));
                            return out;
                        }
                    }
                }
                match cover {
                    Some(ci) => {
                        let sv = singles[ci].confirm_value(&leaf_true);
                        let sn = singles[ci].confirm_nonexistence(g);
                        let ok = matches!(mv, Ok(x) if x == present.is_some())
                            && matches!(mw, Ok(false))
                            && matches!(mn, Ok(x) if x == present.is_none())
                            && matches!(sv, Ok(x) if x == present.is_some())
                            && matches!(sn, Ok(x) if x == present.is_none());
                        if !ok {
                            out.violation = Some(v(
                                "multi-confirm",
                                format!("S={mask:#x} Q={q:?} key #{gi} present={} : multi confirm_value={mv:?}/{mw:?} nonexistence={mn:?}; single confirm_value={sv:?} nonexistence={sn:?}", present.is_some()),
                            ));
                            return out;
                        }
                        // with_index for every index
                        for idx in 0..positions.len() {
                            let iv = verified.confirm_value_with_index(&leaf_true, idx);
                            let inx = verified.confirm_nonexistence_with_index(g, idx);
                            self.calls += 2;
                            let ok = if idx == ci {
                                matches!(iv, Ok(x) if x == present.is_some()) && matches!(inx, Ok(x) if x == present.is_none())
                            } else {
                                iv.is_err() && inx.is_err()
                            };
                            if !ok {
                                out.violation = Some(v(
                                    "multi-confirm-index",
                                    format!("S={mask:#x} Q={q:?} key #{gi} index {idx} (covering {ci}): value={iv:?} nonexistence={inx:?}"),
                                ));
                                return out;
                            }
                        }
                        match verified.find_index_for(g) {
                            Ok(i) if i == ci => {}
                            other => {
                                out.violation = Some(v(
                                    "multi-find-index",
                                    format!("S={mask:#x} Q={q:?} key #{gi}: find_index_for = {other:?}, expected {ci}"),
                                ));
                                return out;
                            }
                        }
                    }
                    None => {
                        if mv.is_ok() || mn.is_ok() {
                            out.violation = Some(v(
                                "multi-scope",
                                format!("S={mask:#x} Q={q:?} key #{gi} is out of scope but value={mv:?} nonexistence={mn:?}"),
                            ));
                            return out;
                        }
                    }
                }
            }
            // updates
            let in_scope: Vec<usize> = (0..fam.len())
                .filter(|gi| positions.iter().any(|(k, d)| prefix_eq(&fam[*gi], k, *d)))
                .collect();
            for w in write_sets(&in_scope, &fam, wmax) {
                let truth = t.root_after(&w);
                let m = verify_multi_proof_update::<H>(&verified, w.clone());
                // per-path update
                let mut updates = vec![];
                for (pi, (k, d)) in positions.iter().enumerate() {
                    let ops: Vec<(Key, Option<Vh>)> =
                        w.iter().filter(|(wk, _)| prefix_eq(wk, k, *d)).cloned().collect();
                    if !ops.is_empty() {
                        updates.push(PathUpdate {
                            inner: singles[pi].clone(),
                            ops,
                        });
                    }
                }
                let p = verify_update::<H>(t.root, &updates);
                self.calls += 2;
                out.transitions += 1;
                let ok = matches!(m, Ok(r) if r == truth) && matches!(p, Ok(r) if r == truth);
                if !ok {
                    out.violation = Some(v(
                        "update-root",
                        format!(
                            "S={mask:#x} Q={q:?} W={}: multi update = {}, per-path update = {}, reference = {}",
                            wdesc(&w, &fam),
                            rdesc(&m.map_err(|e| format!("{e:?}"))),
                            rdesc(&p.map_err(|e| format!("{e:?}"))),
                            hex(&truth[..6])
                        ),
                    ));
                    return out;
                }
            }
            sigacc.push_str(&format!("{}:{};", mp.paths.len(), mp.siblings.len()));
        }
        out.sig = fnv_str(&sigacc) ^ mask as u64;
        out.states.push(mask as u64);
        out
    }
}

fn wdesc(w: &[(Key, Option<Vh>)], fam: &[Key]) -> String {
    w.iter()
        .map(|(k, v)| {
            format!(
                "#{}{}",
                fam.iter().position(|f| f == k).map(|i| i as i64).unwrap_or(-1),
                if v.is_some() { "=w" } else { "=del" }
            )
        })
        .collect::<Vec<_>>()
        .join(",")
}

fn rdesc(r: &Result<Node, String>) -> String {
    match r {
        Ok(n) => hex(&n[..6]),
        Err(e) => format!("Err({e})"),
    }
}

impl ProofX {
    /// Wide multi-proofs: almost all of a 20-key family present, every family key queried (so the
    /// proof has up to 20 terminals), every write set of one or two operations anywhere.

    /// A multi-proof with more than 65 536 siblings: a complete trie of 2^18 leaves (keys = every
    /// 17-bit prefix), every 8th key proven (32 768 path proofs aggregated), verified, queried, and
    /// updated at a few keys (write, delete, write) against the reference root. `panic_only`: C18's
    /// use (verdicts only, no oracle).
    fn run_huge(&mut self, panic_only: bool) -> Outcome {
        let mut out = Outcome::default();
        out.nontrivial = true;
        const D: usize = 18;
        let n = 1usize << D;
        let key_of = |i: usize| -> Key {
            let mut k = [0u8; 32];
            let v = (i as u32) << (32 - D);
            k[..4].copy_from_slice(&v.to_be_bytes());
            k
        };
        let leaves: Vec<(Key, Vh)> = (0..n).map(|i| (key_of(i), vh(i % 251, 0))).collect();
        // node table, level D = leaves
        let mut levels: Vec<Vec<Node>> = vec![vec![]; D + 1];
        levels[D] = leaves.iter().map(|(k, v)| H::hash_leaf(&LeafData { key_path: *k, value_hash: *v })).collect();
        for d in (0..D).rev() {
            let below = &levels[d + 1];
            levels[d] = (0..1usize << d).map(|j| H::hash_internal(&InternalData { left: below[2 * j], right: below[2 * j + 1] })).collect();
        }
        let root = levels[0][0];
        let picks: Vec<usize> = (0..n).step_by(8).collect();
        let proofs: Vec<PathProof> = picks
            .iter()
            .map(|&i| PathProof {
                terminal: PathProofTerminal::Leaf(LeafData { key_path: leaves[i].0, value_hash: leaves[i].1 }),
                siblings: (1..=D).map(|d| levels[d][(i >> (D - d)) ^ 1]).collect(),
            })
            .collect();
        self.calls += 1;
        let r = guarded(|| {
            let mp = MultiProof::from_path_proofs(proofs.clone());
            let nsib = mp.siblings.len();
            let verified = verify_multi_proof::<H>(&mp, root);
            (nsib, verified)
        });
        let (nsib, verified) = match r {
            Err(m) => {
                out.violation = Some(v("panic:huge-multi-proof", format!("building / verifying a multi-proof of {} paths panicked: {m}", picks.len())));
                return out;
            }
            Ok(x) => x,
        };
        if nsib > 65535 {
            out.goals.push("multi-proof-with-more-than-65535-siblings");
        }
        out.transitions += 1;
        let verified = match verified {
            Ok(vm) => vm,
            Err(e) => {
                if !panic_only {
                    out.violation = Some(v("multi-verify-honest", format!("the honest multi-proof of {} paths ({nsib} siblings) does not verify: {e:?}", picks.len())));
                }
                return out;
            }
        };
        // queries at the ends and around the 16-bit boundary of the sibling offsets
        for &i in &[0usize, 8, picks[picks.len() / 2], picks[picks.len() - 1], 5, n - 1] {
            let leaf = LeafData { key_path: leaves[i].0, value_hash: leaves[i].1 };
            let r = guarded(|| (verified.confirm_value(&leaf), verified.confirm_nonexistence(&leaf.key_path)));
            self.calls += 2;
            match r {
                Err(m) => {
                    out.violation = Some(v("panic:huge-multi-proof", format!("confirm_* on the {nsib}-sibling multi-proof panicked: {m}")));
                    return out;
                }
                Ok((cv, cn)) => {
                    let proven = i % 8 == 0;
                    let ok = if proven { matches!(cv, Ok(true)) && matches!(cn, Ok(false)) } else { cv.is_err() && cn.is_err() };
                    if !ok && !panic_only {
                        out.violation = Some(v("multi-confirm", format!("{nsib}-sibling multi-proof, key #{i} (proven: {proven}): confirm_value={cv:?} nonexistence={cn:?}")));
                        return out;
                    }
                }
            }
        }
        // updates: first, a key beyond the 16-bit offset boundary, the last; write / delete / write
        let targets = [picks[0], picks[picks.len() * 63 / 64], picks[picks.len() - 1]];
        for wset in [vec![0usize], vec![1], vec![2], vec![0, 1, 2]] {
            let ops: Vec<(Key, Option<Vh>)> = wset.iter().map(|&w| (leaves[targets[w]].0, if w == 1 { None } else { Some(vh(7, 1)) })).collect();
            self.calls += 1;
            out.transitions += 1;
            let r = guarded(|| verify_multi_proof_update::<H>(&verified, ops.clone()));
            match r {
                Err(m) => {
                    out.violation = Some(v("panic:huge-multi-proof", format!("verify_multi_proof_update over the {nsib}-sibling multi-proof ({} ops) panicked: {m}", ops.len())));
                    return out;
                }
                Ok(res) => {
                    if panic_only {
                        continue;
                    }
                    let mut after = leaves.clone();
                    for (k, o) in &ops {
                        let idx = after.binary_search_by(|(x, _)| x.cmp(k)).unwrap();
                        match o {
                            Some(h) => after[idx].1 = *h,
                            None => {
                                after.remove(idx);
                            }
                        }
                    }
                    let truth = refmodel::root_of_leaves::<H>(&after);
                    if !matches!(res, Ok(r) if r == truth) {
                        out.violation = Some(v("multi-update", format!("{nsib}-sibling multi-proof, {} ops: verify_multi_proof_update = {:?}, reference root {}", ops.len(), res.map(|r| hex(&r[..6])), hex(&truth[..6]))));
                        return out;
                    }
                }
            }
        }
        out.sig = fnv_str(&format!("huge:{nsib}"));
        out.states.push(nsib as u64);
        out
    }

    fn run_c07_wide(&mut self, case: &Value) -> Outcome {
        let mask = case["s"].as_u64().unwrap() as u32;
        let t = Trie::with_family(family_wide(), mask);
        let all: Vec<usize> = (0..t.fam.len()).collect();
        self.multi_over_whole_family(t, mask as u64, &all)
    }

    /// Comb tries: `n` keys `b^i ¬b …` (i = 0..n-1) hanging off one spine, so that the bisection of
    /// a multi-proof over all of them nests n-1 levels deep (far beyond log2 of the number of
    /// paths); `gap` > 0 leaves every gap-th tooth absent (non-existence terminals on the spine).
    fn run_c07_comb(&mut self, case: &Value) -> Outcome {
        let n = case["n"].as_u64().unwrap() as usize;
        let ones = case["ones"].as_bool().unwrap();
        let gap = case["gap"].as_u64().unwrap() as usize;
        let mut fam: Vec<Key> = (0..n)
            .map(|i| {
                let mut k = if ones { [0u8; 32] } else { [0xffu8; 32] };
                for b in 0..i {
                    if ones {
                        k[b / 8] |= 0x80 >> (b % 8);
                    } else {
                        k[b / 8] &= !(0x80 >> (b % 8));
                    }
                }
                // bit i stays ¬b; a tail marker keeps the keys apart from the all-b key
                k[31] ^= 0x01;
                k
            })
            .collect();
        fam.sort();
        fam.dedup();
        let present: Vec<bool> = (0..fam.len()).map(|i| gap == 0 || i % gap != gap - 1).collect();
        let t = Trie::with_present(fam, &present);
        let m = t.fam.len();
        let mut writes: Vec<usize> = vec![0, 1, m / 2, m - 2, m - 1];
        writes.sort();
        writes.dedup();
        self.multi_over_whole_family(t, (n as u64) << 8 | (gap as u64) << 1 | ones as u64, &writes)
    }

    fn multi_over_whole_family(&mut self, t: Trie, mask: u64, write_keys: &[usize]) -> Outcome {
        let fam = t.fam.clone();
        let mut out = Outcome::default();
        out.nontrivial = true;
        let honest: Vec<PathProof> = fam.iter().map(|k| t.honest(k)).collect();
        let mut proofs: Vec<(usize, PathProof)> = vec![];
        for qi in 0..fam.len() {
            let p = honest[qi].clone();
            let d = p.siblings.len();
            if proofs.iter().any(|(oi, o)| o.siblings.len() == d && prefix_eq(&fam[qi], &fam[*oi], d)) {
                continue;
            }
            proofs.push((qi, p));
        }
        proofs.sort_by(|a, b| fam[a.0][..].cmp(&fam[b.0][..]));
        let positions: Vec<(Key, usize)> = proofs.iter().map(|(qi, p)| (fam[*qi], p.siblings.len())).collect();
        let mp = MultiProof::from_path_proofs(proofs.iter().map(|(_, p)| p.clone()).collect());
        let verified = match verify_multi_proof::<H>(&mp, t.root) {
            Ok(vp) => vp,
            Err(e) => {
                out.violation = Some(v("multi-verify-honest", format!("wide honest multi-proof over S={mask:#x} does not verify: {e:?}")));
                return out;
            }
        };
        let singles: Vec<_> = proofs.iter().map(|(qi, p)| p.verify::<H>(fam[*qi].view_bits::<Msb0>(), t.root).expect("honest path proof")).collect();
        // queries
        for (gi, g) in fam.iter().enumerate() {
            let present = t.set.get(g);
            let leaf_true = LeafData { key_path: *g, value_hash: present.cloned().unwrap_or(vh(gi, 0)) };
            let mv = verified.confirm_value(&leaf_true);
            let mn = verified.confirm_nonexistence(g);
            if !(matches!(mv, Ok(x) if x == present.is_some()) && matches!(mn, Ok(x) if x == present.is_none())) {
                out.violation = Some(v("multi-confirm", format!("wide S={mask:#x} key #{gi} present={}: confirm_value={mv:?} nonexistence={mn:?}", present.is_some())));
                return out;
            }
        }
        for w in write_sets(write_keys, &fam, 2) {
            let truth = t.root_after(&w);
            let m = verify_multi_proof_update::<H>(&verified, w.clone());
            let mut updates = vec![];
            for (pi, (k, d)) in positions.iter().enumerate() {
                let ops: Vec<(Key, Option<Vh>)> = w.iter().filter(|(wk, _)| prefix_eq(wk, k, *d)).cloned().collect();
                if !ops.is_empty() {
                    updates.push(PathUpdate { inner: singles[pi].clone(), ops });
                }
            }
            let p = verify_update::<H>(t.root, &updates);
            out.transitions += 1;
            if !(matches!(m, Ok(r) if r == truth) && matches!(p, Ok(r) if r == truth)) {
                out.violation = Some(v(
                    "update-root",
                    format!("wide S={mask:#x} ({} terminals) W={}: multi update = {}, per-path update = {}, reference = {}", positions.len(), wdesc(&w, &fam), rdesc(&m.map_err(|e| format!("{e:?}"))), rdesc(&p.map_err(|e| format!("{e:?}"))), hex(&truth[..6])),
                ));
                return out;
            }
        }
        out.sig = fnv_str(&format!("wide{mask}:{}", positions.len()));
        out.states.push(mask | 1 << 40);
        out.goals.push(if positions.len() >= 14 { "wide:>=14-terminals" } else { "wide:<14-terminals" });
        out
    }
}

// ---------------------------------------------------------------------------------------------
// Mutation grammar (C08 / C18)

#[derive(Clone)]
struct Pool {
    nodes: Vec<Node>,
    leaves: Vec<LeafData>,
}

fn pool_for(t: &Trie, neighbours: &[Trie]) -> Pool {
    let mut nodes: BTreeSet<Node> = BTreeSet::new();
    nodes.insert(TERMINATOR);
    for k in &t.fam {
        for s in t.honest(k).siblings {
            nodes.insert(s);
        }
    }
    nodes.insert(t.root);
    for tr in neighbours.iter() {
        // the neighbour's root and the top sibling of each of its proofs
        nodes.insert(tr.root);
        for k in &tr.fam {
            if let Some(s) = tr.honest(k).siblings.first() {
                nodes.insert(*s);
            }
        }
    }
    let mut leaves = vec![];
    for (i, k) in t.fam.iter().enumerate() {
        for c in 0..2 {
            let l = LeafData {
                key_path: *k,
                value_hash: vh(i, c),
            };
            nodes.insert(H::hash_leaf(&l));
            leaves.push(l);
        }
    }
    // a key outside the family
    leaves.push(LeafData {
        key_path: [0xEE; 32],
        value_hash: vh(99, 0),
    });
    Pool {
        nodes: nodes.into_iter().collect(),
        leaves,
    }
}

fn terminal_variants(t: &PathProofTerminal, pool: &Pool, lookup: &Key) -> Vec<(&'static str, PathProofTerminal)> {
    let mut out = vec![];
    match t {
        PathProofTerminal::Leaf(l) => {
            let d = 3u16;
            out.push(("leaf->terminator", PathProofTerminal::Terminator(TriePosition::from_path_and_depth(l.key_path, d))));
            out.push(("leaf->terminator-root", PathProofTerminal::Terminator(TriePosition::new())));
            for o in &pool.leaves {
                if o != l {
                    out.push(("leaf-replaced", PathProofTerminal::Leaf(o.clone())));
                }
            }
        }
        PathProofTerminal::Terminator(p) => {
            for o in &pool.leaves {
                out.push(("terminator->leaf", PathProofTerminal::Leaf(o.clone())));
            }
            let d = p.depth();
            for nd in [d.wrapping_sub(1), d + 1, 1, 255, 256] {
                if nd >= 1 && nd <= 256 && nd != d {
                    out.push(("terminator-depth", PathProofTerminal::Terminator(TriePosition::from_path_and_depth(*lookup, nd))));
                }
            }
            out.push(("terminator-root", PathProofTerminal::Terminator(TriePosition::new())));
            if d >= 1 {
                let mut other = *lookup;
                other[0] ^= 0x80;
                out.push(("terminator-path", PathProofTerminal::Terminator(TriePosition::from_path_and_depth(other, d))));
                let flipped = util::flip_bit(lookup, (d - 1) as usize);
                out.push(("terminator-path", PathProofTerminal::Terminator(TriePosition::from_path_and_depth(flipped, d))));
                // every single bit of the (short) position flipped
                for b in 1..(d as usize).saturating_sub(1).min(24) {
                    let flipped = util::flip_bit(lookup, b);
                    out.push(("terminator-path-bit", PathProofTerminal::Terminator(TriePosition::from_path_and_depth(flipped, d))));
                }
            }
        }
    }
    out
}

/// Positions of a sibling list that are mutated: all of them up to 24 siblings; for deeper
/// proofs (keys diverging at bit 127/254/255) the first eight, the middle and the last four.
fn mutated_positions(n: usize) -> Vec<usize> {
    if n <= 24 {
        (0..n).collect()
    } else {
        let mut v: Vec<usize> = (0..8).collect();
        v.push(n / 2);
        v.extend(n - 4..n);
        v
    }
}

fn sibling_list_variants(s: &[Node], pool: &Pool) -> Vec<(&'static str, Vec<Node>)> {
    let mut out = vec![];
    for i in mutated_positions(s.len()) {
        for b in [0usize, 7, 255] {
            let mut m = s.to_vec();
            m[i][b / 8] ^= 0x80 >> (b % 8);
            out.push(("sibling-bitflip", m));
        }
        for n in &pool.nodes {
            if *n != s[i] {
                let mut m = s.to_vec();
                m[i] = *n;
                out.push(("sibling-replaced", m));
            }
        }
        let mut m = s.to_vec();
        m.remove(i);
        out.push(("sibling-deleted", m));
        let mut m = s.to_vec();
        m.insert(i, s[i]);
        out.push(("sibling-duplicated", m));
        for j in mutated_positions(s.len()).into_iter().filter(|j| *j > i) {
            let mut m = s.to_vec();
            m.swap(i, j);
            out.push(("sibling-swapped", m));
        }
    }
    for l in mutated_positions(s.len()) {
        out.push(("siblings-truncated", s[..l].to_vec()));
    }
    for n in &pool.nodes {
        let mut m = s.to_vec();
        m.push(*n);
        out.push(("siblings-extended", m));
        let mut m = s.to_vec();
        m.insert(0, *n);
        out.push(("siblings-prepended", m));
    }
    out
}

fn path_proof_mutants(p: &PathProof, pool: &Pool, lookup: &Key) -> Vec<(&'static str, PathProof)> {
    let mut out = vec![];
    for (c, t) in terminal_variants(&p.terminal, pool, lookup) {
        out.push((
            c,
            PathProof {
                terminal: t,
                siblings: p.siblings.clone(),
            },
        ));
    }
    for (c, s) in sibling_list_variants(&p.siblings, pool) {
        out.push((
            c,
            PathProof {
                terminal: p.terminal.clone(),
                siblings: s,
            },
        ));
    }
    out
}

fn multi_mutants(mp: &MultiProof, pool: &Pool, fam: &[Key], extremes: bool) -> Vec<(&'static str, MultiProof)> {
    let mut out = vec![];
    for (c, s) in sibling_list_variants(&mp.siblings, pool) {
        out.push((
            c,
            MultiProof {
                paths: mp.paths.clone(),
                siblings: s,
            },
        ));
    }
    for i in 0..mp.paths.len() {
        let lookup = {
            let bits = mp.paths[i].terminal.path();
            let mut k = [0u8; 32];
            let n = bits.len().min(256);
            k.view_bits_mut::<Msb0>()[..n].copy_from_bitslice(&bits[..n]);
            k
        };
        for (c, t) in terminal_variants(&mp.paths[i].terminal, pool, &lookup) {
            let mut m = mp.clone();
            m.paths[i].terminal = t;
            out.push((c, m));
        }
        let d = mp.paths[i].depth;
        let mut depths = vec![d.wrapping_sub(1), d + 1];
        if extremes {
            depths.extend([0, 1, 255, 256, 257, 1usize << 63, usize::MAX]);
        }
        for nd in depths {
            if nd != d {
                let mut m = mp.clone();
                m.paths[i].depth = nd;
                out.push(("multi-depth", m));
            }
        }
        if extremes {
            // an over-deep claim backed by enough siblings to cover it (the sibling-count guards
            // pass, only a depth check against the key length can stop it)
            for nd in [255usize, 256, 257, 300] {
                for keep_own in [false, true] {
                    let mut m = mp.clone();
                    m.paths[i].depth = nd;
                    let mut sib = if keep_own { mp.siblings.clone() } else { vec![] };
                    sib.resize(nd + 8, TERMINATOR);
                    m.siblings = sib;
                    out.push(("multi-depth-covered", m));
                }
            }
        }
        let mut m = mp.clone();
        m.paths.remove(i);
        out.push(("multi-path-dropped", m));
        let mut m = mp.clone();
        let dup = m.paths[i].clone();
        m.paths.insert(i, dup);
        out.push(("multi-path-duplicated", m));
        for j in i + 1..mp.paths.len() {
            let mut m = mp.clone();
            m.paths.swap(i, j);
            out.push(("multi-path-swapped", m));
        }
        // prefix-related paths: add a terminator whose path is a prefix of this one
        if d >= 2 {
            let mut m = mp.clone();
            m.paths.insert(
                i,
                MultiPathProof {
                    terminal: PathProofTerminal::Terminator(TriePosition::from_path_and_depth(lookup, (d - 1) as u16)),
                    depth: d - 1,
                },
            );
            out.push(("multi-prefix-path", m));
        }
    }
    let _ = fam;
    if extremes {
        out.push((
            "multi-empty-paths",
            MultiProof {
                paths: vec![],
                siblings: mp.siblings.clone(),
            },
        ));
        for n in [1usize, 255, 256, 257] {
            out.push((
                "multi-many-siblings",
                MultiProof {
                    paths: mp.paths.clone(),
                    siblings: vec![TERMINATOR; n],
                },
            ));
        }
    }
    out
}

// ---------------------------------------------------------------------------------------------
// C08: soundness

struct Sound<'a> {
    t: &'a Trie,
    probes: Vec<LeafData>,
}

impl<'a> Sound<'a> {
    fn new(t: &'a Trie, pool: &Pool) -> Self {
        // every (key, value hash) claim over the family: in particular an ABSENT key claimed with
        // the value hash of a leaf that exists under another key (distinct keys may well carry equal
        // values), and a present key claimed with another leaf's value hash
        let mut probes = pool.leaves.clone();
        for (j, k) in t.fam.iter().enumerate() {
            for (i, o) in t.fam.iter().enumerate() {
                if i != j && t.set.contains_key(o) {
                    probes.push(LeafData {
                        key_path: *k,
                        value_hash: vh(i, 0),
                    });
                }
            }
        }
        for (_, h) in t.set.iter().take(2) {
            probes.push(LeafData {
                key_path: [0xEE; 32],
                value_hash: *h,
            });
        }
        Sound { t, probes }
    }

    fn truth_value(&self, l: &LeafData) -> bool {
        self.t.set.get(&l.key_path) == Some(&l.value_hash)
    }

    /// A verified path proof must only confirm true statements.
    fn check_path(&self, vp: &nomt_core::proof::VerifiedPathProof, what: &str, calls: &mut u64) -> Option<Violation> {
        for l in &self.probes {
            *calls += 2;
            if let Ok(true) = vp.confirm_value(l) {
                if !self.truth_value(l) {
                    return Some(v(
                        "false-value-confirmed",
                        format!("{what}: verified path proof confirms value of key {} which is false", hex(&l.key_path[..4])),
                    ));
                }
            }
            if let Ok(true) = vp.confirm_nonexistence(&l.key_path) {
                if self.t.set.contains_key(&l.key_path) {
                    return Some(v(
                        "false-nonexistence-confirmed",
                        format!("{what}: verified path proof confirms non-existence of present key {}", hex(&l.key_path[..4])),
                    ));
                }
            }
        }
        None
    }

    fn check_path_update(&self, vp: &nomt_core::proof::VerifiedPathProof, what: &str, wmax: usize, calls: &mut u64) -> Option<Violation> {
        let fam = &self.t.fam;
        // write sets range over ALL family keys: an out-of-scope operation must be refused (or
        // still give the true root), not silently routed through this path
        let all: Vec<usize> = (0..fam.len()).collect();
        for w in write_sets(&all, fam, wmax) {
            *calls += 1;
            let upd = [PathUpdate {
                inner: vp.clone(),
                ops: w.clone(),
            }];
            if let Ok(r) = verify_update::<H>(self.t.root, &upd) {
                let truth = self.t.root_after(&w);
                if r != truth {
                    return Some(v(
                        "false-update-root",
                        format!("{what}: verify_update over W={} returned {} but the true root is {}", wdesc(&w, fam), hex(&r[..6]), hex(&truth[..6])),
                    ));
                }
            }
        }
        None
    }

    fn check_multi(&self, vm: &nomt_core::proof::VerifiedMultiProof, n_paths: usize, what: &str, wmax: usize, calls: &mut u64) -> Option<Violation> {
        // the index-based entry points, for every index
        for l in &self.probes {
            for i in 0..n_paths {
                *calls += 2;
                if let Ok(Ok(true)) = std::panic::catch_unwind(std::panic::AssertUnwindSafe(|| vm.confirm_value_with_index(l, i))) {
                    if !self.truth_value(l) {
                        return Some(v(
                            "false-value-confirmed",
                            format!("{what}: confirm_value_with_index(.., {i}) confirms value of key {} which is false", hex(&l.key_path[..4])),
                        ));
                    }
                }
                if let Ok(Ok(true)) = std::panic::catch_unwind(std::panic::AssertUnwindSafe(|| vm.confirm_nonexistence_with_index(&l.key_path, i))) {
                    if self.t.set.contains_key(&l.key_path) {
                        return Some(v(
                            "false-nonexistence-confirmed",
                            format!("{what}: confirm_nonexistence_with_index(.., {i}) confirms non-existence of present key {}", hex(&l.key_path[..4])),
                        ));
                    }
                }
            }
        }
        for l in &self.probes {
            *calls += 2;
            if let Ok(true) = vm.confirm_value(l) {
                if !self.truth_value(l) {
                    return Some(v(
                        "false-value-confirmed",
                        format!("{what}: verified multi-proof confirms value of key {} which is false", hex(&l.key_path[..4])),
                    ));
                }
            }
            if let Ok(true) = vm.confirm_nonexistence(&l.key_path) {
                if self.t.set.contains_key(&l.key_path) {
                    return Some(v(
                        "false-nonexistence-confirmed",
                        format!("{what}: verified multi-proof confirms non-existence of present key {}", hex(&l.key_path[..4])),
                    ));
                }
            }
        }
        let fam = &self.t.fam;
        let all: Vec<usize> = (0..fam.len()).collect();
        for w in write_sets(&all, fam, wmax) {
            *calls += 1;
            if let Ok(r) = verify_multi_proof_update::<H>(vm, w.clone()) {
                let truth = self.t.root_after(&w);
                if r != truth {
                    return Some(v(
                        "false-update-root",
                        format!("{what}: verify_multi_proof_update over W={} returned {} but the true root is {}", wdesc(&w, fam), hex(&r[..6]), hex(&truth[..6])),
                    ));
                }
            }
        }
        None
    }
}

fn honest_multis(t: &Trie, qmax: usize) -> Vec<(Vec<usize>, MultiProof)> {
    let fam = &t.fam;
    let honest: Vec<PathProof> = fam.iter().map(|k| t.honest(k)).collect();
    let mut out = vec![];
    let mut seen = BTreeSet::new();
    // every query set of ≤ qmax keys, plus the query for ALL family keys (the multi-proof with the
    // largest number of terminals this trie has)
    let mut queries = subsets_upto(fam.len(), qmax);
    queries.push((0..fam.len()).collect());
    for q in queries {
        if q.is_empty() {
            continue;
        }
        let mut proofs: Vec<(usize, PathProof)> = vec![];
        for &qi in &q {
            let p = honest[qi].clone();
            let d = p.siblings.len();
            if proofs.iter().any(|(oi, o)| o.siblings.len() == d && prefix_eq(&fam[qi], &fam[*oi], d)) {
                continue;
            }
            proofs.push((qi, p));
        }
        proofs.sort_by(|a, b| fam[a.0][..].cmp(&fam[b.0][..]));
        let sig: Vec<(usize, usize)> = proofs.iter().map(|(qi, p)| (p.siblings.len(), *qi)).collect();
        // dedupe identical terminal sets
        let keyset: Vec<String> = proofs
            .iter()
            .map(|(qi, p)| format!("{}:{}", p.siblings.len(), hex(&fam[*qi][..(p.siblings.len() + 7) / 8])))
            .collect();
        let _ = sig;
        if !seen.insert(keyset) {
            continue;
        }
        let mp = MultiProof::from_path_proofs(proofs.iter().map(|(_, p)| p.clone()).collect());
        out.push((q, mp));
    }
    out
}

impl ProofX {
    fn run_c08(&mut self, case: &Value) -> Outcome {
        let mask = case["s"].as_u64().unwrap() as u32;
        let qmax = case["qmax"].as_u64().unwrap() as usize;
        let wmax = case["wmax"].as_u64().unwrap() as usize;
        let two_step = case["two_step"].as_bool().unwrap_or(false);
        let t = Trie::new(mask);
        let fam = t.fam.clone();
        // neighbours: tries differing in one key (cross-splicing material)
        let neighbours: Vec<Trie> = (0..fam.len()).map(|i| Trie::new(mask ^ (1 << i))).collect();
        let pool = pool_for(&t, &neighbours);
        let sound = Sound::new(&t, &pool);
        let mut out = Outcome::default();
        out.nontrivial = true;
        let mut accepted = 0u64;
        let mut objects = 0u64;
        let mut calls = 0u64;
        // path proofs
        for (gi, g) in fam.iter().enumerate() {
            let honest = t.honest(g);
            let mut objs: Vec<(String, PathProof)> = vec![("honest".into(), honest.clone())];
            for (c, m) in path_proof_mutants(&honest, &pool, g) {
                if two_step {
                    for (c2, m2) in path_proof_mutants(&m, &pool, g) {
                        objs.push((format!("{c}+{c2}"), m2));
                    }
                }
                objs.push((c.to_string(), m));
            }
            // whole-object cross-splicing: the honest proof of the same key in a neighbour trie
            for nb in &neighbours {
                objs.push(("cross-spliced".into(), nb.honest(g)));
            }
            for (class, obj) in objs {
                // verified with every family key as the lookup key
                for (li, lookup) in fam.iter().enumerate() {
                    // honest and cross-spliced objects are verified with every family key as the
                    // lookup key; one-step mutants with the proof's own key and two others
                    let full = class == "honest" || class == "cross-spliced";
                    if !full && li != gi && li != (gi + 1) % fam.len() && li != (gi + 6) % fam.len() {
                        continue;
                    }
                    objects += 1;
                    calls += 1;
                    if let Ok(vp) = obj.verify::<H>(lookup.view_bits::<Msb0>(), t.root) {
                        accepted += 1;
                        let what = format!("S={mask:#x} path proof of key #{gi} [{class}] verified with lookup key #{li}");
                        if let Some(vi) = sound.check_path(&vp, &what, &mut calls) {
                            out.violation = Some(vi);
                            return out;
                        }
                        if let Some(vi) = sound.check_path_update(&vp, &what, wmax, &mut calls) {
                            out.violation = Some(vi);
                            return out;
                        }
                    }
                }
            }
        }
        // several verified honest paths at once, operations routed to every path (also wrong ones)
        {
            let mut vps: Vec<(usize, nomt_core::proof::VerifiedPathProof)> = vec![];
            for (gi, g) in fam.iter().enumerate() {
                if let Ok(vp) = t.honest(g).verify::<H>(g.view_bits::<Msb0>(), t.root) {
                    if !vps.iter().any(|(_, o)| o.path() == vp.path()) {
                        vps.push((gi, vp));
                    }
                }
            }
            vps.sort_by(|a, b| a.1.path().cmp(b.1.path()));
            let all: Vec<usize> = (0..fam.len()).collect();
            let singles = write_sets(&all, &fam, 1);
            for a in 0..vps.len() {
                for b in a + 1..vps.len() {
                    for wa in &singles {
                        for wb in &singles {
                            calls += 1;
                            objects += 1;
                            let upd = [
                                PathUpdate { inner: vps[a].1.clone(), ops: wa.clone() },
                                PathUpdate { inner: vps[b].1.clone(), ops: wb.clone() },
                            ];
                            if let Ok(r) = verify_update::<H>(t.root, &upd) {
                                let mut w = wa.clone();
                                w.extend(wb.iter().cloned());
                                let truth = t.root_after(&w);
                                if r != truth {
                                    out.violation = Some(v(
                                        "false-update-root",
                                        format!("S={mask:#x}: verify_update over two honest paths (keys #{} and #{}) with ops {} / {} returned {} but the true root is {}", vps[a].0, vps[b].0, wdesc(wa, &fam), wdesc(wb, &fam), hex(&r[..6]), hex(&truth[..6])),
                                    ));
                                    return out;
                                }
                            }
                        }
                    }
                }
            }
        }
        // a path verified against ANOTHER root smuggled into the batch (every honest path of every
        // neighbour trie, before and after every honest path of this trie): refused, or the true root
        {
            let mut own: Vec<(usize, nomt_core::proof::VerifiedPathProof)> = vec![];
            for (gi, g) in fam.iter().enumerate() {
                if let Ok(vp) = t.honest(g).verify::<H>(g.view_bits::<Msb0>(), t.root) {
                    if !own.iter().any(|(_, o)| o.path() == vp.path()) {
                        own.push((gi, vp));
                    }
                }
            }
            for nb in neighbours.iter().filter(|nb| nb.root != t.root) {
                for (fi, g) in fam.iter().enumerate() {
                    let Ok(foreign) = nb.honest(g).verify::<H>(g.view_bits::<Msb0>(), nb.root) else { continue };
                    for (gi, vp) in &own {
                        for foreign_first in [false, true] {
                            for with_ops in [false, true] {
                                calls += 1;
                                objects += 1;
                                let ops_own: Vec<(Key, Option<Vh>)> = if with_ops { vec![(fam[*gi], Some(vh(*gi, 1)))] } else { vec![] };
                                let ops_foreign: Vec<(Key, Option<Vh>)> = if with_ops { vec![(*g, Some(vh(fi, 1)))] } else { vec![] };
                                let a = PathUpdate { inner: vp.clone(), ops: ops_own.clone() };
                                let b = PathUpdate { inner: foreign.clone(), ops: ops_foreign.clone() };
                                let upd = if foreign_first { vec![b, a] } else { vec![a, b] };
                                if let Ok(Ok(r)) = std::panic::catch_unwind(std::panic::AssertUnwindSafe(|| verify_update::<H>(t.root, &upd))) {
                                    let mut w = ops_own.clone();
                                    w.extend(ops_foreign.iter().cloned());
                                    w.sort_by(|x, y| x.0.cmp(&y.0));
                                    w.dedup_by(|x, y| x.0 == y.0);
                                    let truth = t.root_after(&w);
                                    if r != truth && fam[*gi] != *g {
                                        out.violation = Some(v(
                                            "false-update-root",
                                            format!("S={mask:#x}: verify_update accepted a batch holding a path verified against another root (key #{fi} of a neighbour trie next to key #{gi}) and returned {} but the true root is {}", hex(&r[..6]), hex(&truth[..6])),
                                        ));
                                        return out;
                                    }
                                }
                            }
                        }
                    }
                }
            }
        }
        // multi-proofs
        let multis = honest_multis(&t, qmax);
        let nb_multis: Vec<Vec<(Vec<usize>, MultiProof)>> = neighbours.iter().map(|n| honest_multis(n, qmax)).collect();
        for (q, mp) in &multis {
            let mut objs: Vec<(String, MultiProof)> = vec![("honest".into(), mp.clone())];
            for (c, m) in multi_mutants(mp, &pool, &fam, false) {
                objs.push((c.to_string(), m));
            }
            // cross-splice: siblings of the same query in a neighbour trie with our paths and vice versa
            for nm in &nb_multis {
                if let Some((_, o)) = nm.iter().find(|(oq, _)| oq == q) {
                    objs.push(("cross-spliced".into(), o.clone()));
                    objs.push((
                        "cross-spliced-siblings".into(),
                        MultiProof {
                            paths: mp.paths.clone(),
                            siblings: o.siblings.clone(),
                        },
                    ));
                    objs.push((
                        "cross-spliced-paths".into(),
                        MultiProof {
                            paths: o.paths.clone(),
                            siblings: mp.siblings.clone(),
                        },
                    ));
                }
            }
            for (class, obj) in objs {
                objects += 1;
                calls += 1;
                let r = std::panic::catch_unwind(|| verify_multi_proof::<H>(&obj, t.root));
                // a panic here belongs to C18, not to C08
                if let Ok(Ok(vm)) = r {
                    accepted += 1;
                    let what = format!("S={mask:#x} multi-proof Q={q:?} [{class}]");
                    let r2 = std::panic::catch_unwind(std::panic::AssertUnwindSafe(|| {
                        let mut c = 0u64;
                        let r = sound.check_multi(&vm, obj.paths.len(), &what, wmax, &mut c);
                        (r, c)
                    }));
                    if let Ok((r, c)) = r2 {
                        calls += c;
                        if let Some(vi) = r {
                            out.violation = Some(vi);
                            return out;
                        }
                    }
                }
            }
        }
        self.calls += calls;
        out.transitions = objects;
        out.states.push(mask as u64);
        out.sig = fnv_str(&format!("{mask}:{objects}:{accepted}"));
        if accepted > 0 {
            out.goals.push("mutant-or-honest-accepted");
        }
        out
    }
}

// ---------------------------------------------------------------------------------------------
// C18: totality

fn msg_class(m: &str) -> &'static str {
    if m.contains("subtract with overflow") {
        "sub-overflow"
    } else if m.contains("add with overflow") {
        "add-overflow"
    } else if m.contains("out of range") || m.contains("out of bounds") || m.contains("index") {
        "index-out-of-range"
    } else if m.contains("unwrap") || m.contains("None") {
        "unwrap-none"
    } else if m.contains("assert") {
        "assertion"
    } else {
        "other-panic"
    }
}

fn guarded<T>(f: impl FnOnce() -> T) -> Result<T, String> {
    std::panic::catch_unwind(std::panic::AssertUnwindSafe(f)).map_err(|p| {
        if let Some(s) = p.downcast_ref::<&str>() {
            s.to_string()
        } else if let Some(s) = p.downcast_ref::<String>() {
            s.clone()
        } else {
            "<panic>".to_string()
        }
    })
}

impl ProofX {
    /// Values of the public proof types that only a deserialiser can build (the `serde` feature
    /// of nomt-core): a `TriePosition` whose depth / node index is outside what the constructors
    /// allow, inside a path proof or a multi-proof. Every verifier entry point must return a
    /// verdict for them as well.
    fn run_c18_serde(&mut self, case: &Value) -> Outcome {
        let mask = case["s"].as_u64().unwrap() as u32;
        let t = Trie::new(mask);
        let fam = t.fam.clone();
        let mut out = Outcome::default();
        out.nontrivial = true;
        let mut found: BTreeMap<String, String> = BTreeMap::new();
        let mut objects = 0u64;
        // field values to plant into every integer field of a serialised terminal / path
        let extremes: Vec<u64> = vec![0, 1, 255, 256, 257, 300, 4095, 65535];
        fn int_paths(v: &Value, cur: &mut Vec<String>, outp: &mut Vec<Vec<String>>) {
            match v {
                Value::Object(m) => {
                    for (k, x) in m {
                        cur.push(k.clone());
                        int_paths(x, cur, outp);
                        cur.pop();
                    }
                }
                Value::Array(a) => {
                    // byte arrays (keys, nodes) are not interesting here: only short arrays of objects
                    if a.iter().all(|x| x.is_number()) {
                        return;
                    }
                    for (i, x) in a.iter().enumerate() {
                        cur.push(i.to_string());
                        int_paths(x, cur, outp);
                        cur.pop();
                    }
                }
                Value::Number(_) => outp.push(cur.clone()),
                _ => {}
            }
        }
        fn set_at(v: &mut Value, path: &[String], nv: u64) {
            let mut cur = v;
            for p in path {
                cur = if cur.is_array() { &mut cur[p.parse::<usize>().unwrap()] } else { &mut cur[p.as_str()] };
            }
            *cur = json!(nv);
        }
        let mut record = |entry: &str, field: &str, msg: String, found: &mut BTreeMap<String, String>| {
            let fp = format!("panic:{entry}:deserialised:{}", msg_class(&msg));
            found.entry(fp).or_insert_with(|| format!("{entry} panicked on a deserialised object (field {field} over S={mask:#x}): {msg} (at {})", crate::last_panic_location()));
        };
        // path proofs
        for k in fam.iter() {
            let honest = t.honest(k);
            let base = serde_json::to_value(&honest).expect("serialise path proof");
            let mut fields = vec![];
            int_paths(&base, &mut vec![], &mut fields);
            for f in &fields {
                for &x in &extremes {
                    let mut v = base.clone();
                    set_at(&mut v, f, x);
                    let Ok(obj) = serde_json::from_value::<PathProof>(v) else { continue };
                    objects += 1;
                    let fname = f.join(".");
                    match guarded(|| obj.verify::<H>(k.view_bits::<Msb0>(), t.root)) {
                        Err(m) => record("PathProof::verify", &fname, m, &mut found),
                        Ok(Ok(vp)) => {
                            let leaf = LeafData { key_path: *k, value_hash: vh(0, 0) };
                            if let Err(m) = guarded(|| {
                                let _ = vp.confirm_value(&leaf);
                                let _ = vp.confirm_nonexistence(k);
                                let _ = verify_update::<H>(t.root, &[PathUpdate { inner: vp.clone(), ops: vec![(*k, Some(vh(1, 1)))] }]);
                            }) {
                                record("VerifiedPathProof::*", &fname, m, &mut found);
                            }
                        }
                        Ok(Err(_)) => {}
                    }
                }
            }
        }
        // multi-proofs over every pair of keys and over all keys
        let mut queries: Vec<Vec<usize>> = subsets_upto(fam.len(), 2).into_iter().filter(|q| !q.is_empty()).collect();
        queries.push((0..fam.len()).collect());
        let honest_paths: Vec<PathProof> = fam.iter().map(|k| t.honest(k)).collect();
        for q in queries {
            let mut proofs: Vec<(usize, PathProof)> = vec![];
            for &qi in &q {
                let p = honest_paths[qi].clone();
                let d = p.siblings.len();
                if proofs.iter().any(|(oi, o)| o.siblings.len() == d && prefix_eq(&fam[qi], &fam[*oi], d)) {
                    continue;
                }
                proofs.push((qi, p));
            }
            proofs.sort_by(|a, b| fam[a.0][..].cmp(&fam[b.0][..]));
            let mp = MultiProof::from_path_proofs(proofs.iter().map(|(_, p)| p.clone()).collect());
            let base = serde_json::to_value(&mp).expect("serialise multi-proof");
            let mut fields = vec![];
            int_paths(&base, &mut vec![], &mut fields);
            for f in &fields {
                for &x in &extremes {
                    let mut v = base.clone();
                    set_at(&mut v, f, x);
                    let Ok(obj) = serde_json::from_value::<MultiProof>(v) else { continue };
                    objects += 1;
                    let fname = f.join(".");
                    let n_paths = obj.paths.len();
                    match guarded(|| verify_multi_proof::<H>(&obj, t.root)) {
                        Err(m) => record("verify_multi_proof", &fname, m, &mut found),
                        Ok(Ok(vm)) => {
                            if let Err(m) = guarded(|| {
                                for k in fam.iter() {
                                    let leaf = LeafData { key_path: *k, value_hash: vh(0, 0) };
                                    let _ = vm.find_index_for(k);
                                    let _ = vm.confirm_value(&leaf);
                                    let _ = vm.confirm_nonexistence(k);
                                    for i in 0..n_paths {
                                        let _ = vm.confirm_value_with_index(&leaf, i);
                                        let _ = vm.confirm_nonexistence_with_index(k, i);
                                    }
                                }
                                let _ = verify_multi_proof_update::<H>(&vm, vec![(fam[0], Some(vh(1, 1)))]);
                            }) {
                                record("VerifiedMultiProof::*", &fname, m, &mut found);
                            }
                        }
                        Ok(Err(_)) => {}
                    }
                }
            }
        }
        out.transitions = objects;
        out.states.push(mask as u64 | 1 << 41);
        out.sig = fnv_str(&format!("serde{mask}:{objects}"));
        if objects > 0 {
            out.goals.push("deserialised-extreme-objects-built");
        }
        let mut it = found.into_iter().map(|(fp, msg)| v(&fp, msg));
        out.violation = it.next();
        out.more = it.collect();
        out
    }

    /// Witness objects (`nomt_core::witness::Witness`): the documented verification flow
    /// (examples/witness_verification: `path.path()` → `PathProof::verify` → `confirm_*` for the
    /// reads of that path → `verify_update` over the collected writes) applied to every honest
    /// witness over S (reads of all family keys, every write set of ≤ 2 keys), to every structural
    /// mutant (paths dropped / duplicated / reversed / rotated, `path` fields swapped between
    /// entries, reads / writes re-indexed, reversed or emptied) and to every object a deserialiser
    /// can build by replacing one integer field (position depth, node index, path index, multi
    /// depth …) by an extreme. The verifier-side glue is written without indexing or unwraps, so a
    /// panic can only come out of nomt-core. Honest witnesses must also yield the reference root.
    fn run_c18_witness(&mut self, case: &Value) -> Outcome {
        let mask = case["s"].as_u64().unwrap() as u32;
        let t = Trie::new(mask);
        let fam = t.fam.clone();
        let mut out = Outcome::default();
        out.nontrivial = true;
        let mut found: BTreeMap<String, String> = BTreeMap::new();
        let mut objects = 0u64;
        let extremes: Vec<u64> = vec![0, 1, 2, 255, 256, 257, 300, 4095, 65535];

        // the documented flow; Err(String) = an error VALUE from a verifier (fine)
        fn flow(w: &Witness, root: Node) -> Result<Node, String> {
            let mut updates = Vec::new();
            for (i, wp) in w.path_proofs.iter().enumerate() {
                let verified = wp.inner.verify::<H>(&wp.path.path(), root).map_err(|e| format!("{e:?}"))?;
                for read in w.operations.reads.iter().skip_while(|r| r.path_index != i).take_while(|r| r.path_index == i) {
                    match read.value {
                        None => {
                            let _ = verified.confirm_nonexistence(&read.key);
                        }
                        Some(value_hash) => {
                            let _ = verified.confirm_value(&LeafData { key_path: read.key, value_hash });
                        }
                    }
                }
                let ops: Vec<(Key, Option<Vh>)> = w.operations.writes.iter().skip_while(|r| r.path_index != i).take_while(|r| r.path_index == i).map(|x| (x.key, x.value)).collect();
                if !ops.is_empty() {
                    updates.push(PathUpdate { inner: verified, ops });
                }
            }
            verify_update::<H>(root, &updates).map_err(|e| format!("{e:?}"))
        }

        // distinct paths of the family keys, in key order, and each key's path index
        let mut paths: Vec<(Key, PathProof)> = vec![];
        let mut index_of: Vec<usize> = vec![];
        for k in fam.iter() {
            let p = t.honest(k);
            let d = p.siblings.len();
            match paths.iter().position(|(ok, o)| o.siblings.len() == d && prefix_eq(k, ok, d)) {
                Some(i) => index_of.push(i),
                None => {
                    paths.push((*k, p));
                    index_of.push(paths.len() - 1);
                }
            }
        }
        // (family keys are listed in an order that need not be ascending: sort paths by key and
        // remap)
        let mut order: Vec<usize> = (0..paths.len()).collect();
        order.sort_by(|a, b| paths[*a].0[..].cmp(&paths[*b].0[..]));
        let rank: Vec<usize> = {
            let mut r = vec![0; order.len()];
            for (new, old) in order.iter().enumerate() {
                r[*old] = new;
            }
            r
        };
        let mk_witness = |writes: &[(usize, Option<Vh>)]| -> Witness {
            let path_proofs: Vec<WitnessedPath> = order
                .iter()
                .map(|&o| {
                    let (k, p) = &paths[o];
                    let d = p.siblings.len();
                    WitnessedPath { inner: p.clone(), path: if d == 0 { TriePosition::new() } else { TriePosition::from_path_and_depth(*k, d as u16) } }
                })
                .collect();
            let mut reads: Vec<WitnessedRead> = fam.iter().enumerate().map(|(i, k)| WitnessedRead { key: *k, value: t.set.get(k).cloned(), path_index: rank[index_of[i]] }).collect();
            reads.sort_by(|a, b| (a.path_index, &a.key[..]).cmp(&(b.path_index, &b.key[..])));
            let mut ws: Vec<WitnessedWrite> = writes.iter().map(|(i, v)| WitnessedWrite { key: fam[*i], value: *v, path_index: rank[index_of[*i]] }).collect();
            ws.sort_by(|a, b| (a.path_index, &a.key[..]).cmp(&(b.path_index, &b.key[..])));
            Witness { path_proofs, operations: WitnessedOperations { reads, writes: ws } }
        };
        let mut record = |what: &str, msg: String, found: &mut BTreeMap<String, String>| {
            let fp = format!("panic:witness-flow:{}", msg_class(&msg));
            found.entry(fp).or_insert_with(|| format!("the witness verification flow panicked on {what} (S={mask:#x}): {msg} (at {})", crate::last_panic_location()));
        };
        // write sets: every ≤ 2 family keys, each inserted / overwritten and deleted
        let mut write_sets: Vec<Vec<(usize, Option<Vh>)>> = vec![vec![]];
        for q in subsets_upto(fam.len(), 2) {
            if q.is_empty() {
                continue;
            }
            write_sets.push(q.iter().map(|&i| (i, Some(vh(i, 1)))).collect());
            write_sets.push(q.iter().enumerate().map(|(n, &i)| (i, if n == 0 { None } else { Some(vh(i, 1)) })).collect());
        }
        for (wi, ws) in write_sets.iter().enumerate() {
            let w = mk_witness(ws);
            objects += 1;
            // honest: must succeed with the reference root
            let ops: Vec<(Key, Option<Vh>)> = ws.iter().map(|(i, v)| (fam[*i], *v)).collect();
            match guarded(|| flow(&w, t.root)) {
                Err(m) => record("an HONEST witness", m, &mut found),
                Ok(Ok(r)) => {
                    if r != t.root_after(&ops) {
                        found.entry("witness-flow-wrong-root".into()).or_insert_with(|| format!("honest witness over S={mask:#x}, writes {ws:?}: flow returned {} but the reference root is {}", hex(&r[..6]), hex(&t.root_after(&ops)[..6])));
                    }
                }
                Ok(Err(e)) => {
                    found.entry("witness-flow-honest-refused".into()).or_insert_with(|| format!("honest witness over S={mask:#x}, writes {ws:?}: refused with {e}"));
                }
            }
            // mutants only for a sample of write sets (the empty one, the first few)
            if wi > 6 {
                continue;
            }
            let base = serde_json::to_value(&w).expect("serialise witness");
            let mut mutants: Vec<(String, Value)> = vec![];
            // (a) structural
            let n = base["path_proofs"].as_array().map_or(0, |a| a.len());
            let arr = |v: &Value, f: &str| v[f].as_array().cloned().unwrap_or_default();
            {
                let pp = arr(&base, "path_proofs");
                for i in 0..n {
                    let mut v = base.clone();
                    let mut a = pp.clone();
                    a.remove(i);
                    v["path_proofs"] = Value::Array(a);
                    mutants.push((format!("path {i} dropped"), v));
                    let mut v = base.clone();
                    let mut a = pp.clone();
                    a.insert(i, pp[i].clone());
                    v["path_proofs"] = Value::Array(a);
                    mutants.push((format!("path {i} duplicated"), v));
                    for j in 0..n {
                        if i != j {
                            let mut v = base.clone();
                            v["path_proofs"][i]["path"] = pp[j]["path"].clone();
                            mutants.push((format!("path {i} carries the position of path {j}"), v));
                            let mut v = base.clone();
                            v["path_proofs"][i]["inner"] = pp[j]["inner"].clone();
                            mutants.push((format!("path {i} carries the proof of path {j}"), v));
                        }
                    }
                }
                let mut v = base.clone();
                let mut a = pp.clone();
                a.reverse();
                v["path_proofs"] = Value::Array(a);
                mutants.push(("paths reversed".into(), v));
                let mut v = base.clone();
                v["path_proofs"] = json!([]);
                mutants.push(("no paths".into(), v));
                for f in ["reads", "writes"] {
                    let ops = base["operations"][f].as_array().cloned().unwrap_or_default();
                    let mut v = base.clone();
                    let mut a = ops.clone();
                    a.reverse();
                    v["operations"][f] = Value::Array(a);
                    mutants.push((format!("{f} reversed"), v));
                    let mut v = base.clone();
                    v["operations"][f] = json!([]);
                    mutants.push((format!("no {f}"), v));
                    for x in 0..n.max(1) {
                        let mut v = base.clone();
                        for o in v["operations"][f].as_array_mut().unwrap() {
                            o["path_index"] = json!(x);
                        }
                        mutants.push((format!("every {f} entry points at path {x}"), v));
                    }
                    let mut v = base.clone();
                    let mut a = ops.clone();
                    a.extend(ops.clone());
                    v["operations"][f] = Value::Array(a);
                    mutants.push((format!("{f} listed twice"), v));
                }
            }
            // (b) every integer field replaced by an extreme
            fn int_paths(v: &Value, cur: &mut Vec<String>, outp: &mut Vec<Vec<String>>) {
                match v {
                    Value::Object(m) => {
                        for (k, x) in m {
                            cur.push(k.clone());
                            int_paths(x, cur, outp);
                            cur.pop();
                        }
                    }
                    Value::Array(a) => {
                        if !a.is_empty() && a.iter().all(|x| x.is_number()) {
                            return;
                        }
                        for (i, x) in a.iter().enumerate() {
                            cur.push(i.to_string());
                            int_paths(x, cur, outp);
                            cur.pop();
                        }
                    }
                    Value::Number(_) => outp.push(cur.clone()),
                    _ => {}
                }
            }
            let mut fields = vec![];
            int_paths(&base, &mut vec![], &mut fields);
            for f in &fields {
                for &x in &extremes {
                    let mut v = base.clone();
                    let mut cur = &mut v;
                    for p in f {
                        cur = if cur.is_array() { &mut cur[p.parse::<usize>().unwrap()] } else { &mut cur[p.as_str()] };
                    }
                    *cur = json!(x);
                    mutants.push((format!("field {} = {x}", f.join(".")), v));
                }
            }
            for (what, v) in mutants {
                let Ok(obj) = serde_json::from_value::<Witness>(v) else { continue };
                objects += 1;
                if let Err(m) = guarded(|| flow(&obj, t.root)) {
                    record(&format!("a witness with {what}"), m, &mut found);
                }
            }
        }
        out.transitions = objects;
        out.states.push(mask as u64 | 1 << 42);
        out.sig = fnv_str(&format!("witness{mask}:{objects}"));
        if objects > 0 {
            out.goals.push("witness-objects-verified");
        }
        let mut it = found.into_iter().map(|(fp, msg)| v(&fp, msg));
        out.violation = it.next();
        out.more = it.collect();
        out
    }

    fn run_c18(&mut self, case: &Value) -> Outcome {
        let mask = case["s"].as_u64().unwrap() as u32;
        let qmax = case["qmax"].as_u64().unwrap() as usize;
        let t = Trie::new(mask);
        let fam = t.fam.clone();
        let neighbours: Vec<Trie> = vec![Trie::new(mask ^ 1), Trie::new(mask ^ (1 << 11))];
        let pool = pool_for(&t, &neighbours);
        let mut out = Outcome::default();
        out.nontrivial = true;
        let mut found: BTreeMap<String, String> = BTreeMap::new();
        let mut objects = 0u64;
        let mut record = |entry: &str, class: &str, msg: String, found: &mut BTreeMap<String, String>| {
            let fp = format!("panic:{entry}:{}:{}", class.split('+').next().unwrap(), msg_class(&msg));
            found.entry(fp).or_insert_with(|| {
                format!("{entry} panicked on a [{class}] object over S={mask:#x}: {msg} (at {})", crate::last_panic_location())
            });
        };
        // op lists: sorted, unsorted, duplicated, out of scope, empty
        let op_lists: Vec<Vec<(Key, Option<Vh>)>> = {
            let mut l: Vec<Vec<(Key, Option<Vh>)>> = vec![vec![]];
            l.push(vec![(fam[0], None)]);
            l.push(vec![(fam[3], Some(vh(3, 1))), (fam[1], None)]);
            l.push(vec![(fam[2], None), (fam[2], Some(vh(2, 1)))]);
            l.push(fam.iter().enumerate().map(|(i, k)| (*k, Some(vh(i, 1)))).collect());
            l.push(vec![([0xEE; 32], Some(vh(50, 0)))]);
            l.push(fam.iter().map(|k| (*k, None)).collect());
            l
        };
        // path proofs
        for (gi, g) in fam.iter().enumerate() {
            let honest = t.honest(g);
            let mut objs: Vec<(String, PathProof)> = vec![("honest".into(), honest.clone())];
            for (c, m) in path_proof_mutants(&honest, &pool, g) {
                objs.push((c.to_string(), m));
            }
            for n in [255usize, 256, 257, 300] {
                objs.push((
                    "siblings-overlong".into(),
                    PathProof {
                        terminal: honest.terminal.clone(),
                        siblings: vec![TERMINATOR; n],
                    },
                ));
            }
            for (class, obj) in objs {
                for lookup in [g, &fam[(gi + 5) % fam.len()]] {
                    objects += 1;
                    // key_path slices of various lengths
                    for klen in [256usize, obj.siblings.len().min(256), 0, 3] {
                        let r = guarded(|| obj.verify::<H>(&lookup.view_bits::<Msb0>()[..klen], t.root));
                        match r {
                            Err(m) => record("PathProof::verify", &class, m, &mut found),
                            Ok(Ok(vp)) => {
                                for l in pool.leaves.iter().take(6) {
                                    if let Err(m) = guarded(|| {
                                        let _ = vp.confirm_value(l);
                                        let _ = vp.confirm_nonexistence(&l.key_path);
                                    }) {
                                        record("VerifiedPathProof::confirm", &class, m, &mut found);
                                    }
                                }
                                // operation lists relative to this path: in-scope duplicates
                                // (both writes, write+delete), in-scope unsorted pair
                                let scoped: Vec<usize> = (0..fam.len()).filter(|i| fam[*i].view_bits::<Msb0>().starts_with(vp.path())).collect();
                                let mut lists = op_lists.clone();
                                if let Some(&a) = scoped.first() {
                                    lists.push(vec![(fam[a], Some(vh(a, 0))), (fam[a], Some(vh(a, 1)))]);
                                    lists.push(vec![(fam[a], None), (fam[a], None)]);
                                    lists.push(vec![(fam[a], Some(vh(a, 1))), (fam[a], None)]);
                                    if let Some(&b) = scoped.last() {
                                        if a != b {
                                            lists.push(vec![(fam[b], Some(vh(b, 1))), (fam[a], Some(vh(a, 1)))]);
                                            lists.push(vec![(fam[a], Some(vh(a, 1))), (fam[b], Some(vh(b, 1))), (fam[b], Some(vh(b, 0)))]);
                                        }
                                    }
                                }
                                for ops in &lists {
                                    let upd = vec![
                                        PathUpdate {
                                            inner: vp.clone(),
                                            ops: ops.clone(),
                                        },
                                    ];
                                    if let Err(m) = guarded(|| verify_update::<H>(t.root, &upd)) {
                                        record("verify_update", &class, m, &mut found);
                                    }
                                    // duplicated / unordered paths
                                    let upd2 = vec![
                                        PathUpdate {
                                            inner: vp.clone(),
                                            ops: ops.clone(),
                                        },
                                        PathUpdate {
                                            inner: vp.clone(),
                                            ops: ops.clone(),
                                        },
                                    ];
                                    if let Err(m) = guarded(|| verify_update::<H>(t.root, &upd2)) {
                                        record("verify_update", &class, m, &mut found);
                                    }
                                }
                            }
                            Ok(Err(_)) => {}
                        }
                    }
                }
            }
        }
        // update batches that mix verified path proofs taken against DIFFERENT roots (this trie, its
        // neighbours, the empty trie, a single-leaf trie, the full family), in every order, with
        // and without operations: an error value (or a root) is expected, never a panic — in
        // particular when one path is a strict prefix of the next one (a terminator high up in one
        // trie followed by a leaf further down in another)
        {
            let mut others: Vec<Trie> = vec![Trie::new(mask ^ 1), Trie::new(mask ^ (1 << 11)), Trie::new(0), Trie::new(1 << (mask.trailing_zeros().min(11))), Trie::new((1 << fam.len()) - 1)];
            others.retain(|o| o.root != t.root);
            let mut verified: Vec<(usize, Key, nomt_core::proof::VerifiedPathProof)> = vec![];
            for (ti, tr) in std::iter::once(&t).chain(others.iter()).enumerate() {
                let mut seen: BTreeSet<Vec<bool>> = BTreeSet::new();
                for g in fam.iter() {
                    if let Ok(vp) = tr.honest(g).verify::<H>(g.view_bits::<Msb0>(), tr.root) {
                        if seen.insert(vp.path().iter().map(|b| *b).collect()) {
                            verified.push((ti, *g, vp));
                        }
                    }
                }
            }
            let roots: Vec<Node> = std::iter::once(t.root).chain(others.iter().map(|o| o.root)).collect();
            for (ta, ka, a) in verified.iter() {
                for (tb, kb, b) in verified.iter() {
                    if ta == tb {
                        continue;
                    }
                    objects += 1;
                    for (oa, ob) in [(false, false), (true, false), (false, true), (true, true)] {
                        let upd = vec![
                            PathUpdate { inner: a.clone(), ops: if oa { vec![(*ka, Some(vh(1, 1)))] } else { vec![] } },
                            PathUpdate { inner: b.clone(), ops: if ob { vec![(*kb, None)] } else { vec![] } },
                        ];
                        for r in [roots[*ta], roots[*tb]] {
                            if let Err(m) = guarded(|| verify_update::<H>(r, &upd)) {
                                record("verify_update", "mixed-roots", m, &mut found);
                            }
                        }
                    }
                }
            }
        }
        // multi-proofs
        for (_q, mp) in honest_multis(&t, qmax) {
            let mut objs: Vec<(String, MultiProof)> = vec![("honest".into(), mp.clone())];
            for (c, m) in multi_mutants(&mp, &pool, &fam, true) {
                objs.push((c.to_string(), m));
            }
            for (class, obj) in objs {
                objects += 1;
                for root in [t.root, TERMINATOR] {
                    match guarded(|| verify_multi_proof::<H>(&obj, root)) {
                        Err(m) => record("verify_multi_proof", &class, m, &mut found),
                        Ok(Ok(vm)) => {
                            for l in pool.leaves.iter() {
                                if let Err(m) = guarded(|| {
                                    let _ = vm.confirm_value(l);
                                    let _ = vm.confirm_nonexistence(&l.key_path);
                                    let _ = vm.find_index_for(&l.key_path);
                                }) {
                                    record("VerifiedMultiProof::confirm", &class, m, &mut found);
                                }
                                for idx in 0..obj.paths.len().max(1) {
                                    if let Err(m) = guarded(|| {
                                        let _ = vm.confirm_value_with_index(l, idx);
                                        let _ = vm.confirm_nonexistence_with_index(&l.key_path, idx);
                                    }) {
                                        record("VerifiedMultiProof::confirm_with_index", &class, m, &mut found);
                                    }
                                }
                            }
                            let mut lists = op_lists.clone();
                            for (i, k) in fam.iter().enumerate() {
                                if vm.find_index_for(k).is_ok() {
                                    lists.push(vec![(*k, Some(vh(i, 0))), (*k, Some(vh(i, 1)))]);
                                    lists.push(vec![(*k, None), (*k, None)]);
                                    break;
                                }
                            }
                            for ops in &lists {
                                if let Err(m) = guarded(|| verify_multi_proof_update::<H>(&vm, ops.clone())) {
                                    record("verify_multi_proof_update", &class, m, &mut found);
                                }
                            }
                        }
                        Ok(Err(_)) => {}
                    }
                }
            }
        }
        out.transitions = objects;
        out.states.push(mask as u64);
        out.sig = fnv_str(&format!("{mask}:{objects}:{}", found.len()));
        let mut it = found.into_iter().map(|(fp, msg)| Violation::new(fp, msg));
        out.violation = it.next();
        out.more = it.collect();
        out
    }
}

// ---------------------------------------------------------------------------------------------

fn masks_upto(n: usize, kmax: usize) -> Vec<(u32, usize)> {
    subsets_upto(n, kmax)
        .into_iter()
        .map(|s| (s.iter().fold(0u32, |m, i| m | 1 << i), s.len()))
        .collect()
}

impl Engine for ProofX {
    fn plan(&self, prop: &str, tier: &str) -> Plan {
        let thorough = tier == "thorough";
        match prop {
            "C07" => {
                let (smax, qmax, wmax) = if thorough { (5, 4, 3) } else { (4, 3, 2) };
                let mut cases: Vec<Value> = masks_upto(12, smax)
                    .into_iter()
                    .map(|(m, k)| json!({"mode": "c07", "s": m, "bound": k, "qmax": qmax, "wmax": wmax}))
                    .collect();
                // wide proofs: the 20-key family minus every subset of ≤ 2 (thorough: 3) keys
                for (m, k) in masks_upto(20, if thorough { 3 } else { 2 }) {
                    cases.push(json!({"mode": "c07w", "s": 0xFFFFFu32 ^ m, "bound": k}));
                }
                // comb tries: deep bisection nesting
                for n in if thorough { vec![3usize, 9, 33, 63, 64, 65, 66, 67, 100, 129, 200, 254] } else { vec![3usize, 33, 64, 65, 66, 67, 129, 254] } {
                    for ones in [true, false] {
                        for gap in [0usize, 2, 3] {
                            cases.push(json!({"mode": "c07comb", "n": n, "ones": ones, "gap": gap, "bound": 2}));
                        }
                    }
                }
                // one very wide proof: 32 768 paths, more than 65 535 siblings
                cases.push(json!({"mode": "huge", "bound": 1}));
                cases.sort_by_key(|c| c["bound"].as_u64().unwrap());
                let mut p = Plan::new(cases, format!("proofx: every key set S of ≤{smax} keys from a 12-key family (diverging at bits 0,1,2,6,7,12,255 + a 4-cluster sharing 20 bits) × every non-empty query set Q of ≤{qmax} family keys (present and absent; honest path proofs from the independent reference trie, de-duplicated, ordered) aggregated by MultiProof::from_path_proofs × every sorted write set of ≤{wmax} operations (delete / write) over the keys in scope; oracle: multi-proof verifies, every confirm_* (also _with_index for every index, find_index_for) equals the single-path answer and the truth, verify_multi_proof_update = verify_update = reference root of the updated set. Plus 'wide' cases: a 20-key family minus every subset of ≤2 (thorough ≤3) keys, all 20 keys queried at once (up to 20 terminals in one multi-proof), every write set of 1..2 operations anywhere (written terminals separated by 0..18 untouched ones). Plus comb tries: n ∈ {{3,…,254}} keys b^i·¬b hanging off one spine (both orientations; all present, or every 2nd / 3rd tooth absent), all n queried in one multi-proof whose bisection nests n−1 levels, confirm_* for every key, updates at the first / second / middle / last teeth. Plus one very wide proof: a complete trie of 2^18 leaves, every 8th key proven, the 32 768 path proofs aggregated into one multi-proof with more than 65 535 siblings, verified, queried and updated (write / delete / write at the first key, a key beyond the 16-bit offset boundary and the last key) against the reference root. One case = one S; bound = |S| (wide: number of removed keys); transitions = (S,Q) and (S,Q,W) combinations checked."));
                p.budget_s = if thorough { 1700 } else { 55 };
                p.assumptions = vec!["Blake3 hasher; key family of 12; value hashes from two classes per key".into()];
                p
            }
            "C08" => {
                let (smax, qmax, wmax) = if thorough { (4, 3, 2) } else { (3, 2, 1) };
                let cases = masks_upto(12, smax)
                    .into_iter()
                    .map(|(m, k)| json!({"mode": "c08", "s": m, "bound": k, "qmax": qmax, "wmax": wmax, "two_step": thorough && k <= 2}))
                    .collect();
                let mut p = Plan::new(cases, format!("proofx: for every key set S of ≤{smax} keys from the 12-key family: every honest PathProof (verified with each of the 12 family keys as lookup key; mutants with 3 lookup keys) and every honest MultiProof over ≤{qmax} queries, and every object one step of the mutation grammar away (sibling bit flips at bits 0/7/255, sibling replaced by every node of a pool [terminator, every sibling/root of this trie and of the 12 tries differing in one key, every leaf hash over the family], deleted/duplicated/swapped siblings, every truncation (sibling positions: all for proofs of ≤24 siblings, the first 8 + middle + last 4 for deeper ones), extension/prepending by every pool node, terminal leaf<->terminator, leaf key/value replaced by every other family leaf, terminator depth ±1/extremes and altered path, multi depth ±1, paths dropped/duplicated/swapped/prefix-related, whole-object and part-wise cross-splicing with the neighbour tries; two steps for |S|≤2 in the thorough tier); every accepted object (verify == Ok against the honest root) must confirm only true value / non-existence statements about the 12 keys + 1 outside probe × 2 value classes, and every update verified through it over every write set of ≤{wmax} ops must return Err or the reference root. One case = one S."));
                p.budget_s = if thorough { 1700 } else { 55 };
                p.assumptions = vec!["collision resistance of Blake3 (the only way a mutated object may verify is by being structurally equivalent)".into()];
                p
            }
            "C18" => {
                let (smax, qmax) = if thorough { (5, 3) } else { (3, 2) };
                let mut cases: Vec<Value> = masks_upto(12, smax)
                    .into_iter()
                    .map(|(m, k)| json!({"mode": "c18", "s": m, "bound": k, "qmax": qmax}))
                    .collect();
                // objects only a deserialiser can build (serde feature of nomt-core)
                for (m, k) in masks_upto(12, if thorough { 3 } else { 2 }) {
                    cases.push(json!({"mode": "c18serde", "s": m, "bound": k}));
                }
                // witness objects through the documented verification flow
                for (m, k) in masks_upto(12, if thorough { 4 } else { 3 }) {
                    cases.push(json!({"mode": "c18witness", "s": m, "bound": k}));
                }
                // a multi-proof with more than 65 535 siblings (verdicts only)
                cases.push(json!({"mode": "huge", "bound": 1, "panic_only": true}));
                cases.sort_by_key(|c| c["bound"].as_u64().unwrap());
                let mut p = Plan::new(cases, format!("proofx: every object of the C08 mutation grammar without the 'verifies' filter plus structural extremes (depth ∈ {{0,1,255,256,257,2^63,usize::MAX}}, depth ∈ {{255,256,257,300}} backed by that many siblings, 255..300 siblings, empty/duplicated/prefix-related path lists, key slices of length 0/3/len/256, operation lists empty/unsorted/duplicated/out-of-scope/all-keys), over every key set S of ≤{smax} keys; each public verifier entry point (PathProof::verify, confirm_*, verify_update, verify_multi_proof, confirm_*_with_index for every valid index, find_index_for, verify_multi_proof_update) is called under catch_unwind in an isolated child process with a timeout; any panic / abort / timeout is a violation, fingerprinted by (entry point, mutation class, panic class). Plus values only a deserialiser can build (nomt-core's serde feature): every honest path proof and every multi-proof over ≤2 and over all keys of every S of ≤2 (thorough 3) keys is serialised, every integer field (terminator depth, node index, multi-path depth) is replaced by each of {{0,1,255,256,257,300,4095,65535}}, and whatever deserialises is fed to every entry point. Plus WITNESS objects (nomt_core::witness::Witness) through the documented verification flow (TriePosition::path → PathProof::verify → confirm_* for the path's reads → verify_update over the collected writes; glue code without indexing or unwraps): every honest witness over every S of ≤3 (thorough 4) keys with reads of all 12 family keys and every write set of ≤2 keys (must return the reference root), every structural mutant (paths dropped / duplicated / reversed / emptied, position or proof of one path planted into another, reads / writes reversed / emptied / doubled / all pointed at one path) and every object obtained by replacing one integer field of the serialised witness (position depth, node index, path index, …) by each of {{0,1,2,255,256,257,300,4095,65535}}."));
                p.budget_s = if thorough { 1700 } else { 55 };
                p.isolate = true;
                p.case_timeout_s = 600;
                p.timeout_is_violation = true;
                p
            }
            _ => panic!("proofx has no plan for {prop}"),
        }
    }

    fn run(&mut self, _prop: &str, case: &Value) -> Outcome {
        match case["mode"].as_str().unwrap() {
            "c07" => self.run_c07(case),
            "c07w" => self.run_c07_wide(case),
            "c07comb" => self.run_c07_comb(case),
            "huge" => self.run_huge(case["panic_only"].as_bool().unwrap_or(false)),
            "c08" => self.run_c08(case),
            "c18" => self.run_c18(case),
            "c18serde" => self.run_c18_serde(case),
            "c18witness" => self.run_c18_witness(case),
            m => panic!("bad mode {m}"),
        }
    }
}
