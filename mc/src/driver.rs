//! Thin driver around the real store: open with a configuration, commit a batch through a
//! session, roll back, reopen, and *audit* the observable state against the reference model.

use crate::refmodel::{self, Kv, Model};
use crate::util::{hex, kshort, Key};
use nomt::hasher::{Blake3Hasher, Sha2Hasher};
use nomt::trie::LeafData;
use nomt::{HashAlgorithm, KeyReadWrite, Nomt, Options, Overlay, Session, SessionParams, WitnessMode};
use serde_json::{json, Value};
use std::path::{Path, PathBuf};

/// The hasher every store of the harness is opened with (the name is historical): a hasher that
/// dispatches on a process-global mode set at the start of each case, so that the whole harness —
/// store, reference trie, proof checks, decoder — runs one history under any of the hashers
/// without being generic over them:
/// 0 = Blake3 (kind in the MSB: 1 = leaf), 1 = Sha2 (same labelling), 2 = Blake3 with the labels
/// FLIPPED (MSB 1 = internal), 3 = Blake3 with the kind in the LEAST significant bit of the last
/// byte (1 = leaf). `NodeHasher` leaves the labelling scheme to `node_kind`.
pub struct SwitchHasher;
pub type B3 = SwitchHasher;
pub type S2 = Sha2Hasher;

static HASHER_MODE: std::sync::atomic::AtomicU8 = std::sync::atomic::AtomicU8::new(0);

pub fn set_hasher_mode(m: u8) {
    HASHER_MODE.store(m, std::sync::atomic::Ordering::SeqCst);
}

fn hasher_mode() -> u8 {
    HASHER_MODE.load(std::sync::atomic::Ordering::Relaxed)
}

impl nomt::hasher::ValueHasher for SwitchHasher {
    fn hash_value(value: &[u8]) -> [u8; 32] {
        match hasher_mode() {
            1 => <Sha2Hasher as nomt::hasher::ValueHasher>::hash_value(value),
            _ => <Blake3Hasher as nomt::hasher::ValueHasher>::hash_value(value),
        }
    }
}

impl nomt::hasher::NodeHasher for SwitchHasher {
    fn hash_leaf(data: &LeafData) -> [u8; 32] {
        use nomt::hasher::NodeHasher as NH;
        match hasher_mode() {
            1 => <Sha2Hasher as NH>::hash_leaf(data),
            2 => {
                let mut h = <Blake3Hasher as NH>::hash_leaf(data);
                h[0] &= 0x7f;
                if h == [0u8; 32] {
                    h[31] = 1;
                }
                h
            }
            3 => {
                let mut h = <Blake3Hasher as NH>::hash_leaf(data);
                h[31] |= 1;
                h
            }
            _ => <Blake3Hasher as NH>::hash_leaf(data),
        }
    }

    fn hash_internal(data: &nomt::trie::InternalData) -> [u8; 32] {
        use nomt::hasher::NodeHasher as NH;
        match hasher_mode() {
            1 => <Sha2Hasher as NH>::hash_internal(data),
            2 => {
                let mut h = <Blake3Hasher as NH>::hash_internal(data);
                h[0] |= 0x80;
                h
            }
            3 => {
                let mut h = <Blake3Hasher as NH>::hash_internal(data);
                h[31] &= !1;
                if h == [0u8; 32] {
                    h[31] = 2;
                }
                h
            }
            _ => <Blake3Hasher as NH>::hash_internal(data),
        }
    }

    fn node_kind(node: &nomt::trie::Node) -> nomt::trie::NodeKind {
        use nomt::trie::NodeKind;
        if node == &nomt::trie::TERMINATOR {
            return NodeKind::Terminator;
        }
        let leaf = match hasher_mode() {
            2 => node[0] >> 7 == 0,
            3 => node[31] & 1 == 1,
            _ => node[0] >> 7 == 1,
        };
        if leaf {
            NodeKind::Leaf
        } else {
            NodeKind::Internal
        }
    }
}

#[derive(Clone, Debug, PartialEq)]
pub struct Cfg {
    pub buckets: u32,
    pub seed: u32,
    pub cc: usize,
    pub io_workers: usize,
    pub rollback: bool,
    pub log_len: u32,
    pub warm_up: bool,
    pub page_cache: usize,
    pub leaf_cache: usize,
    pub prepopulate: bool,
    pub upper_levels: usize,
    pub preallocate: bool,
    /// rollback segment size knob (0 = built-in 64 MiB)
    pub seg_size: u64,
    /// adversarial device: the I/O workers deliver the completions of a burst newest first
    pub io_reverse: bool,
    /// forgetful leaf cache: 0 off, 1 odd page numbers miss, 2 even ones, 3 every second lookup
    pub leaf_amnesia: u8,
    /// fill every buffer the page pool hands out with this byte first (0 = off)
    pub pool_poison: u8,
    /// hasher mode of `SwitchHasher` (0 Blake3, 1 Sha2, 2 flipped labels, 3 label in the last bit)
    pub hasher: u8,
}

impl Default for Cfg {
    fn default() -> Self {
        Cfg {
            buckets: 4096,
            seed: 7,
            cc: 1,
            io_workers: 1,
            rollback: false,
            log_len: 100,
            warm_up: false,
            page_cache: 4,
            leaf_cache: 4,
            prepopulate: false,
            upper_levels: 2,
            preallocate: false,
            seg_size: 0,
            io_reverse: false,
            leaf_amnesia: 0,
            pool_poison: 0,
            hasher: 0,
        }
    }
}

/// The 16-byte bitbox seed derived from the configuration's seed number.
pub fn seed_bytes(seed: u32) -> [u8; 16] {
    let b = seed.to_be_bytes();
    let mut out = [0u8; 16];
    for i in 0..16 {
        out[i] = b[i % 4] ^ (i as u8 / 4);
    }
    out
}

impl Cfg {
    pub fn to_json(&self) -> Value {
        json!({"buckets": self.buckets, "seed": self.seed, "cc": self.cc, "io_workers": self.io_workers,
               "rollback": self.rollback, "log_len": self.log_len, "warm_up": self.warm_up,
               "page_cache": self.page_cache, "leaf_cache": self.leaf_cache, "prepopulate": self.prepopulate,
               "upper_levels": self.upper_levels, "preallocate": self.preallocate, "seg_size": self.seg_size, "io_reverse": self.io_reverse, "leaf_amnesia": self.leaf_amnesia, "pool_poison": self.pool_poison, "hasher": self.hasher})
    }
    pub fn from_json(v: &Value) -> Self {
        let d = Cfg::default();
        let u = |k: &str, dv: u64| v.get(k).and_then(|x| x.as_u64()).unwrap_or(dv);
        let b = |k: &str, dv: bool| v.get(k).and_then(|x| x.as_bool()).unwrap_or(dv);
        Cfg {
            buckets: u("buckets", d.buckets as u64) as u32,
            seed: u("seed", d.seed as u64) as u32,
            cc: u("cc", d.cc as u64) as usize,
            io_workers: u("io_workers", d.io_workers as u64) as usize,
            rollback: b("rollback", d.rollback),
            log_len: u("log_len", d.log_len as u64) as u32,
            warm_up: b("warm_up", d.warm_up),
            page_cache: u("page_cache", d.page_cache as u64) as usize,
            leaf_cache: u("leaf_cache", d.leaf_cache as u64) as usize,
            prepopulate: b("prepopulate", d.prepopulate),
            upper_levels: u("upper_levels", d.upper_levels as u64) as usize,
            preallocate: b("preallocate", d.preallocate),
            seg_size: u("seg_size", d.seg_size),
            io_reverse: b("io_reverse", d.io_reverse),
            leaf_amnesia: u("leaf_amnesia", d.leaf_amnesia as u64) as u8,
            pool_poison: u("pool_poison", d.pool_poison as u64) as u8,
            hasher: u("hasher", d.hasher as u64) as u8,
        }
    }
    pub fn options(&self, dir: &Path) -> Options {
        let mut o = Options::new();
        o.path(dir);
        o.hashtable_buckets(self.buckets);
        o.bitbox_seed(seed_bytes(self.seed));
        o.commit_concurrency(self.cc);
        o.io_workers(self.io_workers);
        o.rollback(self.rollback);
        o.max_rollback_log_len(self.log_len);
        o.warm_up(self.warm_up);
        o.preallocate_ht(self.preallocate);
        o.page_cache_size(self.page_cache);
        o.leaf_cache_size(self.leaf_cache);
        o.prepopulate_page_cache(self.prepopulate);
        o.page_cache_upper_levels(self.upper_levels);
        o
    }
}

/// One key action inside a batch.
#[derive(Clone, Debug, PartialEq)]
pub enum Act {
    Read,
    Write(Option<Vec<u8>>),
    ReadThenWrite(Option<Vec<u8>>),
}

impl Act {
    pub fn written(&self) -> Option<&Option<Vec<u8>>> {
        match self {
            Act::Read => None,
            Act::Write(v) | Act::ReadThenWrite(v) => Some(v),
        }
    }
}

pub type Batch = Vec<(Key, Act)>;

pub fn writes_of(batch: &Batch) -> Vec<(Key, Option<Vec<u8>>)> {
    batch
        .iter()
        .filter_map(|(k, a)| a.written().map(|v| (*k, v.clone())))
        .collect()
}

pub struct Db<H: HashAlgorithm> {
    pub nomt: Option<Nomt<H>>,
    pub dir: PathBuf,
    pub cfg: Cfg,
}

/// Open a directory whose previous handle was dropped a moment ago: the directory lock is
/// released when the last internal reference to the old store goes away, which may lag the drop
/// of the handle (helper threads winding down; more so after a failed commit). That lag is not
/// what the caller is checking (C20 is about the lock), so "Failed to lock directory" is retried
/// for a bounded time.
pub fn open_nomt_retry<H: HashAlgorithm>(dir: &Path, cfg: &Cfg, secs: u64) -> anyhow::Result<Nomt<H>> {
    let t0 = std::time::Instant::now();
    loop {
        match open_nomt::<H>(dir, cfg) {
            Err(e) if format!("{e:#}").contains("Failed to lock directory") && t0.elapsed().as_secs() < secs => {
                std::thread::sleep(std::time::Duration::from_millis(2));
            }
            other => return other,
        }
    }
}

pub fn open_nomt<H: HashAlgorithm>(dir: &Path, cfg: &Cfg) -> anyhow::Result<Nomt<H>> {
    nomt::verif::knobs::set_rollback_segment_size(cfg.seg_size);
    nomt::verif::io::set_reverse_completions(cfg.io_reverse);
    nomt::verif::knobs::set_leaf_cache_amnesia(cfg.leaf_amnesia);
    nomt::verif::knobs::set_page_pool_poison(cfg.pool_poison);
    set_hasher_mode(cfg.hasher);
    Nomt::<H>::open(cfg.options(dir))
}

impl<H: HashAlgorithm> Db<H> {
    pub fn open(dir: &Path, cfg: &Cfg) -> anyhow::Result<Self> {
        let nomt = open_nomt::<H>(dir, cfg)?;
        Ok(Db {
            nomt: Some(nomt),
            dir: dir.to_path_buf(),
            cfg: cfg.clone(),
        })
    }

    pub fn n(&self) -> &Nomt<H> {
        self.nomt.as_ref().unwrap()
    }

    pub fn close(&mut self) {
        self.nomt = None;
    }

    pub fn reopen(&mut self, cfg: &Cfg) -> anyhow::Result<()> {
        self.nomt = None;
        self.nomt = Some(open_nomt::<H>(&self.dir, cfg)?);
        self.cfg = cfg.clone();
        Ok(())
    }

    /// Turn a batch into session actuals, performing the reads through the session and checking
    /// them against `view` (what the session must see).
    pub fn actuals(
        session: &Session<H>,
        batch: &Batch,
        view: &Kv,
    ) -> Result<Vec<(Key, KeyReadWrite)>, String> {
        let mut actuals = vec![];
        for (k, a) in batch {
            let rw = match a {
                Act::Read => {
                    let got = session.read(*k).map_err(|e| format!("session.read failed: {e:#}"))?;
                    if got.as_ref() != view.get(k) {
                        return Err(format!(
                            "session.read({}) = {} but model has {}",
                            kshort(k),
                            vdesc(got.as_deref()),
                            vdesc(view.get(k).map(|v| &v[..]))
                        ));
                    }
                    KeyReadWrite::Read(got)
                }
                Act::Write(v) => KeyReadWrite::Write(v.clone()),
                Act::ReadThenWrite(v) => {
                    let got = session.read(*k).map_err(|e| format!("session.read failed: {e:#}"))?;
                    if got.as_ref() != view.get(k) {
                        return Err(format!(
                            "session.read({}) = {} but model has {}",
                            kshort(k),
                            vdesc(got.as_deref()),
                            vdesc(view.get(k).map(|v| &v[..]))
                        ));
                    }
                    KeyReadWrite::ReadThenWrite(got, v.clone())
                }
            };
            actuals.push((*k, rw));
        }
        actuals.sort_by(|a, b| a.0.cmp(&b.0));
        Ok(actuals)
    }

    /// Commit a batch through a fresh session on the committed state. Returns the root reported
    /// by the finished session.
    pub fn commit(&self, batch: &Batch, view: &Kv) -> Result<[u8; 32], String> {
        let n = self.n();
        let session = n.begin_session(SessionParams::default());
        let actuals = Self::actuals(&session, batch, view)?;
        let fin = session.finish(actuals).map_err(|e| format!("finish failed: {e:#}"))?;
        let root = fin.root().into_inner();
        fin.commit(n).map_err(|e| format!("commit failed: {e:#}"))?;
        Ok(root)
    }

    pub fn rollback(&self, n: usize) -> anyhow::Result<()> {
        self.n().rollback(n)
    }
}

pub fn vdesc(v: Option<&[u8]>) -> String {
    match v {
        None => "absent".to_string(),
        Some(v) => format!("{}B:{}", v.len(), hex(&v[..v.len().min(6)])),
    }
}

/// What to compare in an audit.
#[derive(Clone, Copy, Debug)]
pub struct AuditFlags {
    pub values: bool,
    pub session_values: bool,
    pub root: bool,
    pub seqn: bool,
    pub proofs: bool,
}

impl AuditFlags {
    pub const ALL: AuditFlags = AuditFlags {
        values: true,
        session_values: true,
        root: true,
        seqn: true,
        proofs: true,
    };
    pub const VALUES: AuditFlags = AuditFlags {
        values: true,
        session_values: true,
        root: false,
        seqn: false,
        proofs: false,
    };
    pub const ROOT: AuditFlags = AuditFlags {
        values: false,
        session_values: false,
        root: true,
        seqn: false,
        proofs: false,
    };
}

/// Prove `key` in `session`, verify against the session's root and check that it confirms the
/// model's view. `view_root` is the root the session must be based on.
pub fn check_proof<H: HashAlgorithm>(
    session: &Session<H>,
    key: &Key,
    view: &Kv,
    view_root: [u8; 32],
) -> Result<(), String> {
    use bitvec::prelude::*;
    let prev = session.prev_root().into_inner();
    if prev != view_root {
        return Err(format!(
            "session.prev_root {} != model root {}",
            hex(&prev[..6]),
            hex(&view_root[..6])
        ));
    }
    let proof = session
        .prove(*key)
        .map_err(|e| format!("prove({}) failed: {e:#}", kshort(key)))?;
    let verified = proof
        .verify::<H>(key.view_bits::<Msb0>(), prev)
        .map_err(|e| format!("proof for {} does not verify: {e:?}", kshort(key)))?;
    match view.get(key) {
        Some(v) => {
            let leaf = LeafData {
                key_path: *key,
                value_hash: H::hash_value(v),
            };
            match verified.confirm_value(&leaf) {
                Ok(true) => {}
                other => {
                    return Err(format!(
                        "proof for present key {} does not confirm its value: {other:?}",
                        kshort(key)
                    ))
                }
            }
            match verified.confirm_nonexistence(key) {
                Ok(false) => {}
                other => {
                    return Err(format!(
                        "proof for present key {} confirm_nonexistence = {other:?}",
                        kshort(key)
                    ))
                }
            }
        }
        None => match verified.confirm_nonexistence(key) {
            Ok(true) => {}
            other => {
                return Err(format!(
                    "proof for absent key {} does not confirm non-existence: {other:?}",
                    kshort(key)
                ))
            }
        },
    }
    Ok(())
}

/// Compare everything observable through the API with the model. `universe` = keys to query.
pub fn audit<H: HashAlgorithm>(
    n: &Nomt<H>,
    model: &Model,
    universe: &[Key],
    flags: AuditFlags,
) -> Result<(), String> {
    let want_root = refmodel::root::<H>(&model.kv);
    if flags.root {
        let got = n.root().into_inner();
        if got != want_root {
            return Err(format!(
                "Nomt::root {} != reference root {} over {} pairs",
                hex(&got[..8]),
                hex(&want_root[..8]),
                model.kv.len()
            ));
        }
        if n.is_empty() != model.kv.is_empty() {
            return Err("is_empty disagrees with the model".into());
        }
    }
    if flags.seqn {
        let got = n.sync_seqn();
        if got != model.seqn && std::env::var("MC_NO_SEQN").is_err() {
            return Err(format!("sync_seqn {} != model {}", got, model.seqn));
        }
    }
    if flags.values {
        for k in universe {
            let got = n.read(*k).map_err(|e| format!("read failed: {e:#}"))?;
            if got.as_ref() != model.kv.get(k) {
                return Err(format!(
                    "Nomt::read({}) = {} but model has {}",
                    kshort(k),
                    vdesc(got.as_deref()),
                    vdesc(model.kv.get(k).map(|v| &v[..]))
                ));
            }
        }
    }
    if flags.session_values || flags.proofs {
        let session = n.begin_session(SessionParams::default());
        for k in universe {
            if flags.session_values {
                let got = session.read(*k).map_err(|e| format!("session read failed: {e:#}"))?;
                if got.as_ref() != model.kv.get(k) {
                    return Err(format!(
                        "Session::read({}) = {} but model has {}",
                        kshort(k),
                        vdesc(got.as_deref()),
                        vdesc(model.kv.get(k).map(|v| &v[..]))
                    ));
                }
            }
            if flags.proofs {
                check_proof::<H>(&session, k, &model.kv, want_root)?;
            }
        }
    }
    Ok(())
}

/// An observation of the whole API-visible state, for differential oracles.
pub fn observe<H: HashAlgorithm>(n: &Nomt<H>, universe: &[Key]) -> Result<Value, String> {
    let mut vals = vec![];
    for k in universe {
        let got = n.read(*k).map_err(|e| format!("read failed: {e:#}"))?;
        vals.push(match got {
            None => Value::Null,
            Some(v) => json!(format!("{}:{}", v.len(), hex(&H::hash_value(&v)[..8]))),
        });
    }
    Ok(json!({"root": hex(&n.root().into_inner()), "seqn": n.sync_seqn(), "vals": vals,
              "occupied": n.hash_table_utilization().occupied}))
}

pub fn witness_params() -> SessionParams {
    SessionParams::default().witness_mode(WitnessMode::read_write())
}

pub fn overlay_params<'a>(
    ancestors: impl IntoIterator<Item = &'a Overlay>,
) -> Result<SessionParams, String> {
    SessionParams::default()
        .overlay(ancestors)
        .map_err(|e| format!("{e:?}"))
}
