//! `schedx`: CHESS-style controlled scheduling of real threads over the scheduling seam
//! (`nomt::verif::sched`). One case = one closed harness and a preemption bound; the case runs a
//! depth-first search over *all* schedules of the harness' visible points with at most that many
//! preemptions, re-executing the harness from a fresh store for every schedule.

use crate::driver::{open_nomt, Cfg, B3};
use crate::engine::{fnv_str, Engine, Outcome, Plan, Violation};
use crate::refmodel;
use crate::util::{hex, DirImage, Key, Scratch};
use nomt::verif::sched as sc;
use nomt::{KeyReadWrite, Nomt, Overlay, SessionParams};
use serde_json::{json, Value};
use std::collections::{BTreeMap, BTreeSet};
use std::path::{Path, PathBuf};
use std::sync::atomic::{AtomicBool, AtomicI64, Ordering};
use std::sync::{Arc, Mutex};
use std::time::{Duration, Instant};

pub struct SchedX {
    scratch: Scratch,
    counter: u64,
    /// seed images built once per process (name → image, model, three consecutive leaves)
    seeds: BTreeMap<String, Arc<(DirImage, refmodel::Kv, Vec<Vec<Key>>)>>,
    crash: Option<crate::crashx::CrashX>,
}

impl SchedX {
    pub fn new() -> Self {
        SchedX {
            scratch: Scratch::new("schedx"),
            counter: 0,
            seeds: BTreeMap::new(),
            crash: None,
        }
    }
}

/// One execution of a harness: thread bodies plus a final check.
pub struct Execution {
    pub threads: Vec<Box<dyn FnOnce() + Send>>,
    /// called after all threads finished (or not at all on deadlock)
    pub finish: Box<dyn FnOnce() -> Result<String, String>>,
}

#[derive(Clone, Debug)]
struct Step {
    enabled: Vec<usize>,
    chosen: usize,
    /// whether the previously running thread was among the enabled ones (so that choosing
    /// another one is a preemption)
    prev_enabled: bool,
}

#[derive(Debug)]
enum RunOutcome {
    Completed(Result<String, String>),
    Deadlock(String),
    Stuck(String),
}

fn sp(label: &str) {
    sc::point(label, &|| true);
}

/// Fairness of a writer-preferring FIFO reader-writer lock: a reader may not pass an earlier
/// queued writer; writers are served in arrival order.
fn fair_enabled(slots: &[sc::Slot], i: usize) -> bool {
    let s = &slots[i];
    if s.mode == sc::Mode::Plain {
        return true;
    }
    for (j, o) in slots.iter().enumerate() {
        if j == i || o.st != sc::St::Parked || o.lock_id != s.lock_id || o.mode != sc::Mode::Exclusive {
            continue;
        }
        if o.arrival < s.arrival {
            return false;
        }
    }
    true
}

/// Run one schedule: follow `prefix`, then always choice 0.
fn run_one(exec: Execution, prefix: &[usize]) -> (Vec<Step>, RunOutcome, Vec<String>) {
    let n = exec.threads.len();
    let s = sc::install(n);
    *CUR_SCHED.lock().unwrap() = Some(s.clone());
    let mut handles = vec![];
    for (i, body) in exec.threads.into_iter().enumerate() {
        let h = std::thread::Builder::new()
            .name(format!("mc-t{i}"))
            .spawn(move || {
                sc::thread_begin(i);
                let r = std::panic::catch_unwind(std::panic::AssertUnwindSafe(body));
                if r.is_err() {
                    THREAD_PANICS.lock().unwrap().push(format!("thread {i} panicked at {}", crate::last_panic_location()));
                }
                sc::thread_end();
            })
            .unwrap();
        handles.push(h);
    }
    let mut steps: Vec<Step> = vec![];
    let mut trace: Vec<String> = vec![];
    let mut last: Option<usize> = None;
    let outcome;
    loop {
        // wait for quiescence
        let mut g = s.m.lock().unwrap();
        let t0 = Instant::now();
        let mut stuck = None;
        loop {
            let busy = g.slots.iter().any(|x| x.st == sc::St::Running || x.st == sc::St::NotStarted);
            if !busy {
                break;
            }
            let (gg, to) = s.cv.wait_timeout(g, Duration::from_millis(100)).unwrap();
            g = gg;
            if to.timed_out() && t0.elapsed() > Duration::from_secs(10) {
                stuck = Some(
                    g.slots
                        .iter()
                        .enumerate()
                        .map(|(i, x)| format!("T{i}:{:?}@{}", x.st, x.label))
                        .collect::<Vec<_>>()
                        .join(" "),
                );
                break;
            }
        }
        if let Some(st) = stuck {
            outcome = RunOutcome::Stuck(st);
            break;
        }
        if g.slots.iter().all(|x| x.st == sc::St::Done) {
            drop(g);
            outcome = RunOutcome::Completed(Ok(String::new()));
            break;
        }
        let parked: Vec<usize> = (0..g.slots.len()).filter(|i| g.slots[*i].st == sc::St::Parked).collect();
        let t_io = Instant::now();
        loop {
            for &i in &parked {
                g.slots[i].cmd = sc::Cmd::Eval;
                g.slots[i].reply = None;
            }
            s.cv.notify_all();
            while parked.iter().any(|i| g.slots[*i].reply.is_none()) {
                g = s.cv.wait(g).unwrap();
            }
            // A thread waiting for an I/O completion is waiting for the outside world, not for
            // another thread: give the completion time to arrive before deciding, so that the
            // set of enabled threads does not depend on how fast the I/O pool is.
            let io_pending = parked.iter().any(|i| g.slots[*i].label.starts_with("io.recv") && g.slots[*i].reply == Some(false));
            if !io_pending || t_io.elapsed() > Duration::from_secs(3) {
                break;
            }
            drop(g);
            std::thread::sleep(Duration::from_micros(200));
            g = s.m.lock().unwrap();
        }
        let mut enabled: Vec<usize> = parked
            .iter()
            .cloned()
            .filter(|i| g.slots[*i].reply == Some(true) && fair_enabled(&g.slots, *i))
            .collect();
        if enabled.is_empty() {
            outcome = RunOutcome::Deadlock(
                parked
                    .iter()
                    .map(|i| format!("T{}@{}", i, g.slots[*i].label))
                    .collect::<Vec<_>>()
                    .join(" "),
            );
            break;
        }
        // canonical order: the thread that ran last first, then ascending ids
        enabled.sort();
        let mut prev_enabled = false;
        if let Some(l) = last {
            if let Some(p) = enabled.iter().position(|x| *x == l) {
                let v = enabled.remove(p);
                enabled.insert(0, v);
                prev_enabled = true;
            }
        }
        let c = if steps.len() < prefix.len() { prefix[steps.len()] } else { 0 };
        if c >= enabled.len() {
            outcome = RunOutcome::Stuck(format!("replay divergence at step {}: choice {c} of {:?}", steps.len(), enabled));
            break;
        }
        let who = enabled[c];
        trace.push(format!("T{}@{}", who, g.slots[who].label));
        steps.push(Step {
            enabled: enabled.clone(),
            chosen: c,
            prev_enabled,
        });
        last = Some(who);
        g.slots[who].cmd = sc::Cmd::Go;
        s.cv.notify_all();
        // wait for the grant to be consumed (not for "no longer parked": ABA)
        while g.slots[who].cmd == sc::Cmd::Go {
            g = s.cv.wait(g).unwrap();
        }
    }
    match &outcome {
        RunOutcome::Completed(_) => {
            for h in handles {
                let _ = h.join();
            }
            sc::uninstall();
            let r = (exec.finish)();
            (steps, RunOutcome::Completed(r), trace)
        }
        _ => {
            sc::uninstall();
            // parked threads stay parked forever: leak them
            for h in handles {
                std::mem::forget(h);
            }
            std::mem::forget(exec.finish);
            (steps, outcome, trace)
        }
    }
}

static THREAD_PANICS: Mutex<Vec<String>> = Mutex::new(Vec::new());
static CUR_SCHED: Mutex<Option<Arc<sc::Sched>>> = Mutex::new(None);

/// Whether some controlled thread is currently parked in the middle of a commit (at the
/// read-transaction wait inside the sync).
fn someone_mid_commit() -> bool {
    let Some(s) = CUR_SCHED.lock().unwrap().clone() else { return false };
    let g = s.m.lock().unwrap();
    g.slots.iter().any(|x| x.st == sc::St::Parked && x.label == "readtx.zero")
}

pub struct ExploreResult {
    pub executions: u64,
    pub steps: u64,
    pub outcomes: BTreeSet<String>,
    pub violation: Option<(String, String, Vec<usize>, Vec<String>)>, // (fingerprint, msg, schedule, trace)
    pub capped: bool,
    pub traces: BTreeSet<u64>,
    /// labels of scheduling points seen in any execution
    pub labels: BTreeSet<String>,
}

/// Depth-first search over all schedules with at most `bound` preemptions.
pub fn explore(mk: &mut dyn FnMut() -> Execution, bound: usize, fixed: Option<Vec<usize>>, max_exec: u64, deadline: Instant) -> ExploreResult {
    let mut res = ExploreResult {
        executions: 0,
        steps: 0,
        outcomes: BTreeSet::new(),
        violation: None,
        capped: false,
        traces: BTreeSet::new(),
        labels: BTreeSet::new(),
    };
    let mut stack: Vec<Vec<usize>> = vec![fixed.clone().unwrap_or_default()];
    while let Some(prefix) = stack.pop() {
        if res.executions >= max_exec || Instant::now() > deadline {
            res.capped = true;
            break;
        }
        THREAD_PANICS.lock().unwrap().clear();
        let exec = mk();
        let (steps, out, trace) = run_one(exec, &prefix);
        res.executions += 1;
        res.steps += steps.len() as u64;
        res.traces.insert(fnv_str(&trace.join(" ")));
        if std::env::var("MC_SCHED_TRACE").is_ok() && res.executions == 1 {
            eprintln!("TRACE {}", trace.join(" "));
        }
        for t in trace.iter() {
            if let Some((_, l)) = t.split_once('@') {
                if !res.labels.contains(l) {
                    res.labels.insert(l.to_string());
                }
            }
        }
        let schedule: Vec<usize> = steps.iter().map(|s| s.chosen).collect();
        let panics = THREAD_PANICS.lock().unwrap().clone();
        let verdict: Result<String, (String, String)> = match out {
            RunOutcome::Completed(Ok(o)) => {
                if panics.is_empty() {
                    Ok(o)
                } else {
                    Err(("thread-panic".into(), panics.join("; ")))
                }
            }
            RunOutcome::Completed(Err(m)) => Err(("inconsistent".into(), m)),
            RunOutcome::Deadlock(d) => {
                // fingerprint: the set of points the threads are stuck at
                let mut labels: Vec<&str> = d.split(' ').map(|x| x.split('@').nth(1).unwrap_or("")).collect();
                labels.sort();
                Err((format!("deadlock[{}]", labels.join("+")), format!("deadlock: no thread can proceed: {d}")))
            }
            RunOutcome::Stuck(d) => Err((format!("stuck[{}]", {
                // fingerprint: the last points passed by the threads that never came back
                let mut labels: Vec<&str> = d.split(' ').filter(|x| x.contains(":Running@")).map(|x| x.split('@').nth(1).unwrap_or("")).collect();
                labels.sort();
                labels.join("+")
            }), format!("a released thread neither finished nor reached a scheduling point within 10 s (blocked outside the scheduling points): {d}"))),
        };
        match verdict {
            Ok(o) => {
                res.outcomes.insert(o);
            }
            Err((fp, msg)) => {
                if res.violation.is_none() {
                    res.violation = Some((fp, msg, schedule.clone(), trace.clone()));
                }
                // a failed execution leaks threads: stop exploring this harness
                break;
            }
        }
        if fixed.is_some() {
            break;
        }
        // children: alternatives at every step after the prefix
        let mut preempt_before = vec![0usize; steps.len() + 1];
        for i in 0..steps.len() {
            let is_preempt = steps[i].prev_enabled && steps[i].chosen != 0;
            preempt_before[i + 1] = preempt_before[i] + is_preempt as usize;
        }
        for i in (prefix.len()..steps.len()).rev() {
            for alt in 1..steps[i].enabled.len() {
                let cost = preempt_before[i] + steps[i].prev_enabled as usize;
                if cost > bound {
                    continue;
                }
                let mut p: Vec<usize> = steps[..i].iter().map(|s| s.chosen).collect();
                p.push(alt);
                stack.push(p);
            }
        }
    }
    res
}

// ---------------------------------------------------------------------------------------------
// Harnesses

fn ka() -> Key {
    let mut k = [0x11u8; 32];
    k[31] = 1;
    k
}
fn kb() -> Key {
    let mut k = [0x11u8; 32];
    k[31] = 2;
    k
}
fn val(v: u8) -> Vec<u8> {
    vec![v; 3]
}

fn cfg() -> Cfg {
    let mut c = Cfg::default();
    c.buckets = 64;
    c.rollback = true;
    c.log_len = 4;
    c
}

fn commit_kv(n: &Nomt<B3>, kv: &[(Key, Option<Vec<u8>>)]) -> anyhow::Result<()> {
    let s = n.begin_session(SessionParams::default());
    let mut a: Vec<(Key, KeyReadWrite)> = kv.iter().map(|(k, v)| (*k, KeyReadWrite::Write(v.clone()))).collect();
    a.sort_by(|x, y| x.0.cmp(&y.0));
    s.finish(a)?.commit(n)
}

fn root_of(v: u8) -> [u8; 32] {
    let mut kv = refmodel::Kv::new();
    kv.insert(ka(), val(v));
    kv.insert(kb(), val(v));
    refmodel::root::<B3>(&kv)
}

struct Ctx {
    n: Nomt<B3>,
    obs: Mutex<Vec<String>>,
    errs: Mutex<Vec<String>>,
    session_alive: AtomicBool,
    live_handles: AtomicI64,
    /// a non-blocking commit call is in progress
    nb_in_call: AtomicBool,
    /// a session began (begin_session returned) while a non-blocking commit call was in progress
    began_during_nb: AtomicBool,
}

impl Ctx {
    fn err(&self, m: String) {
        self.errs.lock().unwrap().push(m);
    }
    fn ob(&self, m: String) {
        self.obs.lock().unwrap().push(m);
    }
}

/// Reader body: one session, reads and a proof, all must reflect one committed state.
fn reader(c: &Arc<Ctx>, tag: &str, versions: &[u8]) {
    use bitvec::prelude::*;
    let s = c.n.begin_session(SessionParams::default());
    c.session_alive.store(true, Ordering::SeqCst);
    if someone_mid_commit() {
        c.err(format!("{tag}: begin_session returned while another thread is in the middle of a commit: reader and writer did not exclude each other"));
    }
    let a = s.read(ka()).unwrap();
    sp("R.after-read-a");
    let proof = s.prove(ka());
    sp("R.after-prove");
    let b = s.read(kb()).unwrap();
    sp("R.before-drop");
    let prev = s.prev_root().into_inner();
    let rv = versions.iter().find(|v| root_of(**v) == prev).cloned();
    let av = a.as_ref().map(|v| v[0]);
    let bv = b.as_ref().map(|v| v[0]);
    if av != bv || rv != av {
        c.err(format!("{tag}: one session observed ka=v{av:?}, kb=v{bv:?} and a base root of v{rv:?}"));
    }
    match proof {
        Err(e) => c.err(format!("{tag}: prove failed: {e:#}")),
        Ok(p) => match p.verify::<B3>(ka().view_bits::<Msb0>(), prev) {
            Err(e) => c.err(format!("{tag}: proof does not verify against the session's root: {e:?}")),
            Ok(vp) => {
                use nomt::hasher::ValueHasher;
                let leaf = nomt::trie::LeafData {
                    key_path: ka(),
                    value_hash: <B3 as ValueHasher>::hash_value(a.as_deref().unwrap_or(&[])),
                };
                if !matches!(vp.confirm_value(&leaf), Ok(true)) {
                    c.err(format!("{tag}: proof does not confirm the value the session read"));
                }
            }
        },
    }
    c.session_alive.store(false, Ordering::SeqCst);
    drop(s);
    c.ob(format!("{tag}:v{}", av.unwrap_or(255)));
}

fn kc() -> Key {
    let mut k = [0x11u8; 32];
    k[31] = 3;
    k
}

/// A reader whose session is built on an UNCOMMITTED overlay (which writes a third key): it reads
/// the two committed keys — which the overlay does not cover — with scheduling points in between.
/// If the committed state still was the overlay's base right after `begin_session`, the session is
/// a reader like any other: both keys, read twice, must show that one version, and the committed
/// root must not move until the session is dropped (a blocking writer waits for it).
fn reader_on_overlay(c: &Arc<Ctx>, tag: &str, ov: &Overlay) {
    let params = match SessionParams::default().overlay([ov]) {
        Ok(p) => p,
        Err(e) => {
            c.err(format!("{tag}: SessionParams::overlay refused a one-overlay chain: {e:?}"));
            return;
        }
    };
    let s = c.n.begin_session(params);
    c.session_alive.store(true, Ordering::SeqCst);
    if c.n.root().into_inner() != root_of(0) {
        // the writer won before the session began: a session on a stale chain, nothing specified
        c.session_alive.store(false, Ordering::SeqCst);
        drop(s);
        c.ob(format!("{tag}:stale-chain"));
        return;
    }
    if someone_mid_commit() {
        c.err(format!("{tag}: begin_session (on an overlay) returned while another thread is in the middle of a commit"));
    }
    let a = s.read(ka()).unwrap().map(|v| v[0]);
    sp("R.after-read-a");
    let b = s.read(kb()).unwrap().map(|v| v[0]);
    sp("R.after-read-b");
    let a2 = s.read(ka()).unwrap().map(|v| v[0]);
    let over = s.read(kc()).unwrap().map(|v| v[0]);
    sp("R.before-drop");
    if a != Some(0) || b != Some(0) || a2 != Some(0) {
        c.err(format!("{tag}: a session on an overlay over v0 observed ka=v{a:?}, kb=v{b:?}, ka again=v{a2:?}"));
    }
    if over != Some(9) {
        c.err(format!("{tag}: the overlay's own key reads v{over:?}, expected v9"));
    }
    if c.n.root().into_inner() != root_of(0) {
        c.err(format!("{tag}: the committed root moved while a session (on an overlay) was alive"));
    }
    c.session_alive.store(false, Ordering::SeqCst);
    drop(s);
    c.ob(format!("{tag}:v0"));
}

fn final_check(c: Arc<Ctx>, dir: PathBuf, want: Option<u8>, allowed: &[u8]) -> Result<String, String> {
    let errs = c.errs.lock().unwrap().clone();
    if !errs.is_empty() {
        return Err(errs.join("; "));
    }
    let a = c.n.read(ka()).map_err(|e| format!("{e:#}"))?.map(|v| v[0]);
    let b = c.n.read(kb()).map_err(|e| format!("{e:#}"))?.map(|v| v[0]);
    if a != b {
        return Err(format!("final state mixed: ka=v{a:?} kb=v{b:?}"));
    }
    if let Some(w) = want {
        if a != Some(w) {
            return Err(format!("final state is v{a:?}, expected v{w}"));
        }
    } else if !a.map_or(false, |x| allowed.contains(&x)) {
        return Err(format!("final state is v{a:?}, expected one of {allowed:?}"));
    }
    let root = c.n.root().into_inner();
    if root != root_of(a.unwrap()) {
        return Err(format!("final root does not match final values v{a:?}"));
    }
    let mut obs = c.obs.lock().unwrap().clone();
    obs.sort();
    let out = format!("final=v{} {}", a.unwrap(), obs.join(" "));
    // no committed batch is lost across a reopen
    let c = Arc::try_unwrap(c).map_err(|_| "context still shared".to_string())?;
    drop(c.n);
    let n = reopen_retry(&dir).map_err(|e| format!("reopen failed: {e}"))?;
    let a2 = n.read(ka()).map_err(|e| format!("{e:#}"))?.map(|v| v[0]);
    if a2 != a {
        return Err(format!("after reopen ka=v{a2:?}, before v{a:?}: a committed batch was lost"));
    }
    Ok(out)
}

fn reopen_retry(dir: &Path) -> Result<Nomt<B3>, String> {
    let t0 = Instant::now();
    loop {
        match open_nomt::<B3>(dir, &cfg()) {
            Ok(n) => return Ok(n),
            Err(e) if format!("{e:#}").contains("Failed to lock") && t0.elapsed() < Duration::from_secs(3) => {
                std::thread::sleep(Duration::from_millis(2));
            }
            Err(e) => return Err(format!("{e:#}")),
        }
    }
}

fn prepared(n: &Nomt<B3>, v: u8) -> nomt::FinishedSession {
    let s = n.begin_session(SessionParams::default());
    let mut a = vec![(ka(), KeyReadWrite::Write(Some(val(v)))), (kb(), KeyReadWrite::Write(Some(val(v))))];
    a.sort_by(|x, y| x.0.cmp(&y.0));
    s.finish(a).unwrap()
}

fn prepared_overlay(n: &Nomt<B3>, v: u8) -> Overlay {
    prepared(n, v).into_overlay()
}

impl SchedX {
    fn fresh(&mut self) -> PathBuf {
        self.counter += 1;
        let d = self.scratch.dir(&format!("s{}", self.counter % 8));
        let _ = std::fs::remove_dir_all(&d);
        d
    }

    fn base_ctx(&mut self, commits: &[u8]) -> (Arc<Ctx>, PathBuf) {
        self.base_ctx_cfg(commits, &cfg())
    }

    fn base_ctx_cfg(&mut self, commits: &[u8], cf: &Cfg) -> (Arc<Ctx>, PathBuf) {
        let dir = self.fresh();
        let n = open_nomt::<B3>(&dir, cf).expect("open");
        for v in commits {
            commit_kv(&n, &[(ka(), Some(val(*v))), (kb(), Some(val(*v)))]).expect("base commit");
        }
        (
            Arc::new(Ctx {
                n,
                obs: Mutex::new(vec![]),
                errs: Mutex::new(vec![]),
                session_alive: AtomicBool::new(false),
                live_handles: AtomicI64::new(0),
                nb_in_call: AtomicBool::new(false),
                began_during_nb: AtomicBool::new(false),
            }),
            dir,
        )
    }

    /// Build one execution of the named harness.
    fn make(&mut self, name: &str) -> Execution {
        match name {
            // reader ∥ blocking writer
            "H1" => {
                let (c, dir) = self.base_ctx(&[0]);
                let (c1, c2, c3) = (c.clone(), c.clone(), c);
                Execution {
                    threads: vec![
                        Box::new(move || reader(&c1, "R", &[0, 1])),
                        Box::new(move || {
                            if let Err(e) = commit_kv(&c2.n, &[(ka(), Some(val(1))), (kb(), Some(val(1)))]) {
                                c2.err(format!("W: commit failed: {e:#}"));
                            }
                            drop(c2);
                        }),
                    ],
                    finish: Box::new(move || final_check(c3, dir, Some(1), &[])),
                }
            }
            // three coexisting sessions ("Multiple sessions may coexist"): each thread begins a
            // session, reads, and finishes it into a changeset that is dropped; every order of
            // the three begins and finishes. H10: rollback on (every session has a reverse-delta
            // worker); H10w: warm-up on as well (every session has a warm-up worker). No session
            // may wait for another one to end.
            "H10" | "H10w" => {
                let mut cf = cfg();
                cf.warm_up = name == "H10w";
                let (c, dir) = self.base_ctx_cfg(&[0], &cf);
                let mk = |c: Arc<Ctx>, i: u8| -> Box<dyn FnOnce() + Send> {
                    Box::new(move || {
                        let s = c.n.begin_session(SessionParams::default());
                        s.warm_up(ka());
                        sp("T.between-begin-and-finish");
                        match s.read(ka()) {
                            Ok(v) if v.as_ref().map(|v| v[0]) == Some(0) => {}
                            Ok(v) => c.err(format!("T{i}: session read {v:?}, expected v0")),
                            Err(e) => c.err(format!("T{i}: read failed: {e:#}")),
                        }
                        let mut a = vec![(ka(), KeyReadWrite::Write(Some(val(i)))), (kb(), KeyReadWrite::Write(Some(val(i))))];
                        a.sort_by(|x, y| x.0.cmp(&y.0));
                        match s.finish(a) {
                            Ok(fin) => {
                                c.ob(format!("T{i}:prepared"));
                                drop(fin);
                            }
                            Err(e) => c.err(format!("T{i}: finish failed: {e:#}")),
                        }
                        drop(c);
                    })
                };
                let (c1, c2, c3, c4) = (c.clone(), c.clone(), c.clone(), c);
                Execution {
                    threads: vec![mk(c1, 1), mk(c2, 2), mk(c3, 3)],
                    finish: Box::new(move || final_check(c4, dir, Some(0), &[])),
                }
            }
            // reader whose session sits on an uncommitted overlay ∥ blocking writer ∥ (H1ovr) rollback
            "H1ov" | "H1ovr" => {
                let (c, dir) = self.base_ctx(if name == "H1ov" { &[0] } else { &[1, 0] });
                let ov = {
                    let s = c.n.begin_session(SessionParams::default());
                    s.finish(vec![(kc(), KeyReadWrite::Write(Some(val(9))))]).unwrap().into_overlay()
                };
                let (c1, c2, c3) = (c.clone(), c.clone(), c);
                let rollback = name == "H1ovr";
                Execution {
                    threads: vec![
                        Box::new(move || {
                            reader_on_overlay(&c1, "R", &ov);
                            drop(ov);
                            drop(c1);
                        }),
                        Box::new(move || {
                            let r = if rollback { c2.n.rollback(1) } else { commit_kv(&c2.n, &[(ka(), Some(val(1))), (kb(), Some(val(1)))]) };
                            if let Err(e) = r {
                                c2.err(format!("W: {} failed: {e:#}", if rollback { "rollback" } else { "commit" }));
                            }
                            drop(c2);
                        }),
                    ],
                    finish: Box::new(move || final_check(c3, dir, Some(1), &[])),
                }
            }
            // reader ∥ non-blocking writer with a prepared changeset
            "H2" => {
                let (c, dir) = self.base_ctx(&[0]);
                let fin = prepared(&c.n, 1);
                let (c1, c2, c3) = (c.clone(), c.clone(), c);
                Execution {
                    threads: vec![
                        Box::new(move || reader(&c1, "R", &[0, 1])),
                        Box::new(move || {
                            let alive_before = c2.session_alive.load(Ordering::SeqCst);
                            c2.nb_in_call.store(true, Ordering::SeqCst);
                            let r = fin.try_commit_nonblocking(&c2.n);
                            c2.nb_in_call.store(false, Ordering::SeqCst);
                            match r {
                                Ok(None) => {
                                    let alive_after = c2.session_alive.load(Ordering::SeqCst);
                                    if alive_before && alive_after {
                                        c2.err("W: non-blocking commit succeeded although a session was alive during the whole call".into());
                                    }
                                    c2.ob("W:committed-nb".into());
                                }
                                Ok(Some(back)) => {
                                    c2.ob("W:deferred".into());
                                    sp("W.retry");
                                    if let Err(e) = back.commit(&c2.n) {
                                        c2.err(format!("W: blocking commit of the handed-back changeset failed: {e:#}"));
                                    }
                                }
                                Err(e) => c2.err(format!("W: try_commit_nonblocking failed: {e:#}")),
                            }
                            drop(c2);
                        }),
                    ],
                    finish: Box::new(move || final_check(c3, dir, Some(1), &[])),
                }
            }
            // two writers with changesets prepared on the same base
            "H3" | "H3nb" | "H3ov" | "H5" => {
                let (c, dir) = self.base_ctx(&[0]);
                let mk_writer = |c: Arc<Ctx>, v: u8, flavour: &'static str| -> Box<dyn FnOnce() + Send> {
                    let fin = if flavour == "ov" { None } else { Some(prepared(&c.n, v)) };
                    let ov = if flavour == "ov" { Some(prepared_overlay(&c.n, v)) } else { None };
                    Box::new(move || {
                        let res: Result<(), String> = match flavour {
                            "blocking" => fin.unwrap().commit(&c.n).map_err(|e| format!("{e:#}")),
                            "nb" => match fin.unwrap().try_commit_nonblocking(&c.n) {
                                Ok(None) => Ok(()),
                                Ok(Some(back)) => {
                                    sp("W.retry");
                                    back.commit(&c.n).map_err(|e| format!("{e:#}"))
                                }
                                Err(e) => Err(format!("{e:#}")),
                            },
                            _ => ov.unwrap().commit(&c.n).map_err(|e| format!("{e:#}")),
                        };
                        c.ob(format!("W{v}:{}", if res.is_ok() { "won" } else { "rejected" }));
                        drop(c);
                    })
                };
                let f2 = match name {
                    "H3nb" => "nb",
                    "H3ov" => "ov",
                    _ => "blocking",
                };
                let mut threads: Vec<Box<dyn FnOnce() + Send>> = vec![mk_writer(c.clone(), 1, "blocking"), mk_writer(c.clone(), 2, f2)];
                if name == "H5" {
                    let c1 = c.clone();
                    threads.push(Box::new(move || reader(&c1, "R", &[0, 1, 2])));
                }
                Execution {
                    threads,
                    finish: Box::new(move || {
                        let obs = c.obs.lock().unwrap().clone();
                        let won: Vec<&String> = obs.iter().filter(|o| o.ends_with(":won")).collect();
                        if won.len() != 1 {
                            return Err(format!("two competing changesets on one base: {} of them were accepted ({obs:?})", won.len()));
                        }
                        let w: u8 = won[0][1..2].parse().unwrap();
                        // the rejected attempt must leave the rollback history untouched
                        let r = final_check(c, dir.clone(), Some(w), &[])?;
                        let n = reopen_retry(&dir)?;
                        n.rollback(1).map_err(|e| format!("rollback(1) after the race failed: {e:#}"))?;
                        let a = n.read(ka()).unwrap().map(|v| v[0]);
                        if a != Some(0) {
                            return Err(format!("rollback(1) after the race restored v{a:?} instead of the base v0"));
                        }
                        Ok(r)
                    }),
                }
            }
            // reader ∥ rollback
            "H4" => {
                let (c, dir) = self.base_ctx(&[0, 1]);
                let (c1, c2, c3) = (c.clone(), c.clone(), c);
                Execution {
                    threads: vec![
                        Box::new(move || reader(&c1, "R", &[0, 1])),
                        Box::new(move || {
                            if let Err(e) = c2.n.rollback(1) {
                                c2.err(format!("rollback(1) failed: {e:#}"));
                            }
                            drop(c2);
                        }),
                    ],
                    finish: Box::new(move || final_check(c3, dir, Some(0), &[])),
                }
            }
            // a prepared changeset (base v1) ∥ rollback(1) [∥ a reader]: the two writers must
            // serialise — commit then rollback (the rollback undoes THAT commit: v1), or rollback
            // then commit (the changeset is stale now and must be refused: v0)
            "H8" | "H8r" | "H8ov" => {
                let (c, dir) = self.base_ctx(&[0, 1]);
                let fin = if name == "H8ov" { None } else { Some(prepared(&c.n, 2)) };
                let ov = if name == "H8ov" { Some(prepared_overlay(&c.n, 2)) } else { None };
                let (c1, c2) = (c.clone(), c.clone());
                let mut threads: Vec<Box<dyn FnOnce() + Send>> = vec![
                    Box::new(move || {
                        let r = match (fin, ov) {
                            (Some(f), _) => f.commit(&c1.n).map_err(|e| format!("{e:#}")),
                            (_, Some(o)) => o.commit(&c1.n).map_err(|e| format!("{e:#}")),
                            _ => unreachable!(),
                        };
                        c1.ob(format!("W:{}", if r.is_ok() { "won" } else { "rejected" }));
                        drop(c1);
                    }),
                    Box::new(move || {
                        match c2.n.rollback(1) {
                            Ok(()) => c2.ob("B:ok".into()),
                            Err(e) => c2.err(format!("rollback(1) failed: {e:#}")),
                        }
                        drop(c2);
                    }),
                ];
                if name == "H8r" {
                    let c3 = c.clone();
                    threads.push(Box::new(move || reader(&c3, "R", &[0, 1, 2])));
                }
                Execution {
                    threads,
                    finish: Box::new(move || {
                        let obs = c.obs.lock().unwrap().clone();
                        let won = obs.iter().any(|o| o == "W:won");
                        // commit accepted ⇒ it ran first and the rollback undid it: v1;
                        // commit refused ⇒ the rollback ran first: v0
                        let want = if won { 1 } else { 0 };
                        let r = final_check(c, dir.clone(), Some(want), &[])?;
                        // and the rollback history is that serial order's: one more rollback is
                        // possible exactly in the first case (v1 → v0)
                        let n = reopen_retry(&dir)?;
                        if won {
                            n.rollback(1).map_err(|e| format!("rollback(1) after commit;rollback failed: {e:#}"))?;
                            let a = n.read(ka()).unwrap().map(|v| v[0]);
                            if a != Some(0) {
                                return Err(format!("a further rollback(1) restored v{a:?} instead of v0"));
                            }
                        }
                        Ok(r)
                    }),
                }
            }
            // one thread, warm-up on, as many sessions alive as there are commit workers: the
            // second session's finish must not wait for the first one to end
            "H6w" => {
                let dir = self.fresh();
                let mut cf = cfg();
                cf.warm_up = true;
                cf.cc = 1;
                let n = open_nomt::<B3>(&dir, &cf).expect("open");
                commit_kv(&n, &[(ka(), Some(val(0))), (kb(), Some(val(0)))]).expect("base commit");
                let c = Arc::new(Ctx {
                    n,
                    obs: Mutex::new(vec![]),
                    errs: Mutex::new(vec![]),
                    session_alive: AtomicBool::new(false),
                    live_handles: AtomicI64::new(0),
                    nb_in_call: AtomicBool::new(false),
                    began_during_nb: AtomicBool::new(false),
                });
                let (c1, c3) = (c.clone(), c);
                Execution {
                    threads: vec![Box::new(move || {
                        let s1 = c1.n.begin_session(SessionParams::default());
                        let s2 = c1.n.begin_session(SessionParams::default());
                        s2.warm_up(ka());
                        sp("T.before-finish-of-second-session");
                        let mut a = vec![(ka(), KeyReadWrite::Write(Some(val(1)))), (kb(), KeyReadWrite::Write(Some(val(1))))];
                        a.sort_by(|x, y| x.0.cmp(&y.0));
                        let fin = s2.finish(a);
                        if fin.is_err() {
                            c1.err("finish of the second session failed".into());
                        }
                        let a1 = s1.read(ka()).unwrap().map(|v| v[0]);
                        if a1 != Some(0) {
                            c1.err(format!("first session reads v{a1:?}"));
                        }
                        drop(s1);
                        if let Ok(f) = fin {
                            if let Err(e) = f.commit(&c1.n) {
                                c1.err(format!("commit failed: {e:#}"));
                            }
                        }
                        drop(c1);
                    })],
                    finish: Box::new(move || final_check(c3, dir, Some(1), &[])),
                }
            }
            // two rollbacks racing (three commits logged): both are served, one after the other
            "H8rr" => {
                let (c, dir) = self.base_ctx(&[0, 1, 2]);
                let (c1, c2) = (c.clone(), c.clone());
                let mk = |c: Arc<Ctx>, tag: &'static str| -> Box<dyn FnOnce() + Send> {
                    Box::new(move || {
                        match c.n.rollback(1) {
                            Ok(()) => c.ob(format!("{tag}:ok")),
                            Err(e) => c.err(format!("{tag}: rollback(1) failed: {e:#}")),
                        }
                        drop(c);
                    })
                };
                Execution {
                    threads: vec![mk(c1, "B1"), mk(c2, "B2")],
                    finish: Box::new(move || {
                        let r = final_check(c, dir.clone(), Some(0), &[])?;
                        // nothing is left to roll back to beyond the first commit; one more step back
                        // (to the empty store) is still logged
                        let n = reopen_retry(&dir)?;
                        n.rollback(1).map_err(|e| format!("a third rollback(1) failed: {e:#}"))?;
                        if n.read(ka()).unwrap().is_some() {
                            return Err("after three rollbacks of three commits a key is still there".into());
                        }
                        Ok(r)
                    }),
                }
            }
            // a blocking commit ∥ a session that is being FINISHED (its merkle update is running):
            // the commit must wait until finish() has returned — the committed state may not
            // change between begin_session and the return of finish, and the witness must be
            // that of the session's base
            "H9" => {
                let (c, dir) = self.base_ctx(&[0]);
                let fin = prepared(&c.n, 1);
                let (c1, c2) = (c.clone(), c.clone());
                Execution {
                    threads: vec![
                        Box::new(move || {
                            let r = fin.commit(&c1.n);
                            c1.ob(format!("W1:{}", if r.is_ok() { "won" } else { "rejected" }));
                            drop(c1);
                        }),
                        Box::new(move || {
                            use bitvec::prelude::*;
                            let s = c2.n.begin_session(crate::driver::witness_params());
                            let prev = s.prev_root().into_inner();
                            c2.ob(format!("S.base:v{}", if prev == root_of(1) { 1 } else { 0 }));
                            let a = s.read(ka()).unwrap();
                            sp("S.before-finish");
                            let mut acts = vec![(ka(), KeyReadWrite::ReadThenWrite(a.clone(), Some(val(2)))), (kb(), KeyReadWrite::Write(Some(val(2))))];
                            acts.sort_by(|x, y| x.0.cmp(&y.0));
                            match s.finish(acts) {
                                Err(e) => c2.err(format!("S: finish failed: {e:#}")),
                                Ok(mut fin2) => {
                                    let now = c2.n.root().into_inner();
                                    if now != prev {
                                        c2.err("S: the committed root changed between begin_session and the return of finish(): a blocking commit did not wait for a session that was being finished".into());
                                    }
                                    match fin2.take_witness() {
                                        None => c2.err("S: no witness".into()),
                                        Some(w) => {
                                            for (i, p) in w.path_proofs.iter().enumerate() {
                                                if p.inner.verify::<B3>(&p.path.path(), prev).is_err() {
                                                    c2.err(format!("S: witnessed path {i} does not verify against the session's previous root"));
                                                }
                                            }
                                        }
                                    }
                                    let _ = ka().view_bits::<Msb0>();
                                    sp("S.before-commit");
                                    let r = fin2.commit(&c2.n);
                                    c2.ob(format!("W2:{}", if r.is_ok() { "won" } else { "rejected" }));
                                }
                            }
                            drop(c2);
                        }),
                    ],
                    finish: Box::new(move || {
                        let obs = c.obs.lock().unwrap().clone();
                        let w1 = obs.iter().any(|o| o == "W1:won");
                        let w2 = obs.iter().any(|o| o == "W2:won");
                        // the session began after the other commit: both win, one after the other
                        if obs.iter().any(|o| o == "S.base:v1") {
                            if !(w1 && w2) {
                                return Err(format!("a session begun on the committed v1 was refused: {obs:?}"));
                            }
                            return final_check(c, dir, Some(2), &[]);
                        }
                        // both prepared on v0: exactly one wins
                        if w1 == w2 {
                            let errs = c.errs.lock().unwrap().clone();
                            if !errs.is_empty() {
                                return Err(errs.join("; "));
                            }
                            return Err(format!("two changesets on one base: {obs:?}"));
                        }
                        final_check(c, dir, Some(if w1 { 1 } else { 2 }), &[])
                    }),
                }
            }
            // one thread, rollback enabled, three overlapping sessions: ending the third must not
            // wait for the first two
            "H6r" => {
                let (c, dir) = self.base_ctx(&[0]);
                let (c1, c3) = (c.clone(), c);
                Execution {
                    threads: vec![Box::new(move || {
                        let s1 = c1.n.begin_session(SessionParams::default());
                        let s2 = c1.n.begin_session(SessionParams::default());
                        let s3 = c1.n.begin_session(SessionParams::default());
                        sp("T.before-finish-of-third-session");
                        let mut a = vec![(ka(), KeyReadWrite::Write(Some(val(1)))), (kb(), KeyReadWrite::Write(Some(val(1))))];
                        a.sort_by(|x, y| x.0.cmp(&y.0));
                        let fin = s3.finish(a);
                        if fin.is_err() {
                            c1.err("finish of the third session failed".into());
                        }
                        let a1 = s1.read(ka()).unwrap().map(|v| v[0]);
                        let a2 = s2.read(kb()).unwrap().map(|v| v[0]);
                        if a1 != Some(0) || a2 != Some(0) {
                            c1.err(format!("the older sessions read v{a1:?} / v{a2:?}"));
                        }
                        drop(s1);
                        drop(s2);
                        if let Ok(f) = fin {
                            if let Err(e) = f.commit(&c1.n) {
                                c1.err(format!("commit failed: {e:#}"));
                            }
                        }
                        drop(c1);
                    })],
                    finish: Box::new(move || final_check(c3, dir, Some(1), &[])),
                }
            }
            // one thread holding two overlapping sessions ∥ writer
            "H6" => {
                let (c, dir) = self.base_ctx(&[0]);
                let (c1, c2, c3) = (c.clone(), c.clone(), c);
                Execution {
                    threads: vec![
                        Box::new(move || {
                            let s1 = c1.n.begin_session(SessionParams::default());
                            sp("T.between-sessions");
                            let s2 = c1.n.begin_session(SessionParams::default());
                            let a = s1.read(ka()).unwrap().map(|v| v[0]);
                            let b = s2.read(kb()).unwrap().map(|v| v[0]);
                            if a != b {
                                c1.err(format!("overlapping sessions read v{a:?} and v{b:?}"));
                            }
                            drop(s2);
                            sp("T.before-last-drop");
                            drop(s1);
                            drop(c1);
                        }),
                        Box::new(move || {
                            if let Err(e) = commit_kv(&c2.n, &[(ka(), Some(val(1))), (kb(), Some(val(1)))]) {
                                c2.err(format!("W: commit failed: {e:#}"));
                            }
                            drop(c2);
                        }),
                    ],
                    finish: Box::new(move || final_check(c3, dir, Some(1), &[])),
                }
            }
            // C20: concurrent opens of an existing store while nobody holds it
            "O1" | "O2" | "O2x3" => {
                let dir = self.fresh();
                if name == "O1" {
                    let n = open_nomt::<B3>(&dir, &cfg()).expect("create");
                    commit_kv(&n, &[(ka(), Some(val(0))), (kb(), Some(val(0)))]).unwrap();
                    drop(n);
                    // wait until the lock is really free
                    drop(reopen_retry(&dir).expect("reopen"));
                }
                let live = Arc::new(AtomicI64::new(0));
                let errs = Arc::new(Mutex::new(Vec::<String>::new()));
                let obs = Arc::new(Mutex::new(Vec::<String>::new()));
                let nthreads = if name == "O2x3" { 3 } else { 2 };
                let mut threads: Vec<Box<dyn FnOnce() + Send>> = vec![];
                for t in 0..nthreads {
                    let (dir, live, errs, obs) = (dir.clone(), live.clone(), errs.clone(), obs.clone());
                    threads.push(Box::new(move || {
                        let mut cf = cfg();
                        // different options per opener: a loser must not impose them
                        cf.buckets = 64 + 64 * t as u32;
                        match open_nomt::<B3>(&dir, &cf) {
                            Ok(n) => {
                                let l = live.fetch_add(1, Ordering::SeqCst) + 1;
                                if l > 1 {
                                    errs.lock().unwrap().push(format!("{l} handles on one directory are alive at once"));
                                }
                                sp("O.holding");
                                // the handle must be usable: commit and read back
                                if let Err(e) = commit_kv(&n, &[(ka(), Some(val(10 + t as u8))), (kb(), Some(val(10 + t as u8)))]) {
                                    errs.lock().unwrap().push(format!("opener {t}: commit on its handle failed: {e:#}"));
                                }
                                sp("O.before-drop");
                                live.fetch_sub(1, Ordering::SeqCst);
                                drop(n);
                                obs.lock().unwrap().push(format!("O{t}:ok"));
                            }
                            Err(_) => {
                                obs.lock().unwrap().push(format!("O{t}:refused"));
                            }
                        }
                    }));
                }
                Execution {
                    threads,
                    finish: Box::new(move || {
                        let e = errs.lock().unwrap().clone();
                        if !e.is_empty() {
                            return Err(e.join("; "));
                        }
                        let mut o = obs.lock().unwrap().clone();
                        o.sort();
                        if !o.iter().any(|x| x.ends_with(":ok")) {
                            // every racing attempt was refused (each saw the other's lock file or
                            // lock): errors without a handle ever existing are outside C20
                            return Ok(o.join(" "));
                        }
                        // afterwards the directory opens and holds the last successful commit
                        let n = reopen_retry(&dir).map_err(|e| format!("directory cannot be opened after the race: {e}"))?;
                        let a = n.read(ka()).map_err(|e| format!("{e:#}"))?.map(|v| v[0]);
                        let b = n.read(kb()).map_err(|e| format!("{e:#}"))?.map(|v| v[0]);
                        if a != b || a.map_or(true, |x| x < 10) {
                            return Err(format!("after the open race the store holds ka=v{a:?} kb=v{b:?}"));
                        }
                        Ok(o.join(" "))
                    }),
                }
            }
            // C20: a live handle, a second opener, and the drop of the first
            "O3" => {
                let dir = self.fresh();
                let n = open_nomt::<B3>(&dir, &cfg()).expect("create");
                commit_kv(&n, &[(ka(), Some(val(0))), (kb(), Some(val(0)))]).unwrap();
                let errs = Arc::new(Mutex::new(Vec::<String>::new()));
                let obs = Arc::new(Mutex::new(Vec::<String>::new()));
                let holder_alive = Arc::new(AtomicBool::new(true));
                let (d1, e1, o1, h1) = (dir.clone(), errs.clone(), obs.clone(), holder_alive.clone());
                let (h0, o0) = (holder_alive.clone(), obs.clone());
                Execution {
                    threads: vec![
                        Box::new(move || {
                            sp("A.holding");
                            h0.store(false, Ordering::SeqCst);
                            drop(n);
                            o0.lock().unwrap().push("A:dropped".into());
                        }),
                        Box::new(move || {
                            for attempt in 0..2 {
                                let before = DirImage::snapshot_with_lock(&d1).ok();
                                let alive_before = h1.load(Ordering::SeqCst);
                                match open_nomt::<B3>(&d1, &cfg()) {
                                    Ok(n2) => {
                                        if alive_before && h1.load(Ordering::SeqCst) {
                                            e1.lock().unwrap().push("second open succeeded while the first handle was alive".into());
                                        }
                                        o1.lock().unwrap().push(format!("B:ok@{attempt}"));
                                        drop(n2);
                                        return;
                                    }
                                    Err(_) => {
                                        // a refused open must not modify any file (the holder is idle)
                                        if alive_before && h1.load(Ordering::SeqCst) {
                                            if let (Some(b), Ok(a)) = (before, DirImage::snapshot_with_lock(&d1)) {
                                                let d = b.diff(&a);
                                                if !d.is_empty() {
                                                    e1.lock().unwrap().push(format!("a refused open modified files: {d:?}"));
                                                }
                                            }
                                        }
                                        o1.lock().unwrap().push(format!("B:refused@{attempt}"));
                                        sp("B.retry");
                                    }
                                }
                            }
                        }),
                    ],
                    finish: Box::new(move || {
                        let e = errs.lock().unwrap().clone();
                        if !e.is_empty() {
                            return Err(e.join("; "));
                        }
                        let n = reopen_retry(&dir).map_err(|e| format!("after the first handle was dropped the directory cannot be opened: {e}"))?;
                        let a = n.read(ka()).map_err(|e| format!("{e:#}"))?.map(|v| v[0]);
                        if a != Some(0) {
                            return Err(format!("store content changed: ka=v{a:?}"));
                        }
                        let mut o = obs.lock().unwrap().clone();
                        o.sort();
                        Ok(o.join(" "))
                    }),
                }
            }
            // C20: a holder that drops ∥ two openers (three-party hand-over)
            "O4" => {
                let dir = self.fresh();
                let n = open_nomt::<B3>(&dir, &cfg()).expect("create");
                commit_kv(&n, &[(ka(), Some(val(0))), (kb(), Some(val(0)))]).unwrap();
                let live = Arc::new(AtomicI64::new(1));
                let errs = Arc::new(Mutex::new(Vec::<String>::new()));
                let obs = Arc::new(Mutex::new(Vec::<String>::new()));
                let mut threads: Vec<Box<dyn FnOnce() + Send>> = vec![];
                {
                    let (live, obs) = (live.clone(), obs.clone());
                    threads.push(Box::new(move || {
                        sp("A.holding");
                        live.fetch_sub(1, Ordering::SeqCst);
                        drop(n);
                        obs.lock().unwrap().push("A:dropped".into());
                    }));
                }
                for t in 0..2 {
                    let (dir, live, errs, obs) = (dir.clone(), live.clone(), errs.clone(), obs.clone());
                    threads.push(Box::new(move || match open_nomt::<B3>(&dir, &cfg()) {
                        Ok(n) => {
                            let l = live.fetch_add(1, Ordering::SeqCst) + 1;
                            if l > 1 {
                                errs.lock().unwrap().push(format!("{l} handles on one directory are alive at once"));
                            }
                            sp("O.holding");
                            live.fetch_sub(1, Ordering::SeqCst);
                            drop(n);
                            obs.lock().unwrap().push(format!("O{t}:ok"));
                        }
                        Err(_) => obs.lock().unwrap().push(format!("O{t}:refused")),
                    }));
                }
                Execution {
                    threads,
                    finish: Box::new(move || {
                        let e = errs.lock().unwrap().clone();
                        if !e.is_empty() {
                            return Err(e.join("; "));
                        }
                        let n = reopen_retry(&dir).map_err(|e| format!("directory cannot be opened after the hand-over: {e}"))?;
                        let a = n.read(ka()).map_err(|e| format!("{e:#}"))?.map(|v| v[0]);
                        if a != Some(0) {
                            return Err(format!("store content changed: ka=v{a:?}"));
                        }
                        let mut o = obs.lock().unwrap().clone();
                        o.sort();
                        Ok(o.join(" "))
                    }),
                }
            }
            // merkle update workers of ONE commit under scheduler control: 3 workers, one key pair
            // per worker range plus a key living in the shared root page, witnessed
            "M1" | "M1d" => {
                sc::control_workers(true);
                let dir = self.fresh();
                let mut cf = cfg();
                cf.cc = 3;
                let n = open_nomt::<B3>(&dir, &cf).expect("open");
                let mk = |r: u8, lo: u8| {
                    let mut k = [0u8; 32];
                    k[0] = (r << 2) | lo;
                    k[31] = 7;
                    k
                };
                let mut model = refmodel::Kv::new();
                let mut base: Vec<(Key, Option<Vec<u8>>)> = vec![];
                for r in [1u8, 24, 48] {
                    base.push((mk(r, 0), Some(val(1))));
                    base.push((mk(r, 1), Some(val(2))));
                }
                base.push((mk(60, 0), Some(val(3)))); // alone under its root child: leaf in the root page
                sc::control_workers(false);
                commit_kv(&n, &base).expect("base");
                for (k, v) in &base {
                    model.insert(*k, v.clone().unwrap());
                }
                sc::control_workers(true);
                let n = Arc::new(n);
                let errs = Arc::new(Mutex::new(Vec::<String>::new()));
                let (n1, e1) = (n.clone(), errs.clone());
                let delete_variant = name == "M1d";
                let model2 = model.clone();
                Execution {
                    threads: vec![Box::new(move || {
                        use crate::driver::Act;
                        // one write below each worker's range, one in the root page
                        let mut batch: Vec<(Key, Act)> = vec![
                            (mk(1, 0), Act::Write(Some(val(9)))),
                            (mk(24, 1), if delete_variant { Act::Write(None) } else { Act::ReadThenWrite(Some(val(8))) }),
                            (mk(48, 0), Act::Write(Some(val(7)))),
                            (mk(48, 1), Act::Read),
                            (mk(60, 0), if delete_variant { Act::Write(None) } else { Act::Write(Some(val(6))) }),
                        ];
                        batch.sort_by(|a, b| a.0.cmp(&b.0));
                        let s = n1.begin_session(crate::driver::witness_params());
                        let actuals = match crate::driver::Db::<B3>::actuals(&s, &batch, &model2) {
                            Ok(a) => a,
                            Err(m) => {
                                e1.lock().unwrap().push(m);
                                return;
                            }
                        };
                        let mut fin = match s.finish(actuals) {
                            Ok(f) => f,
                            Err(e) => {
                                e1.lock().unwrap().push(format!("finish failed: {e:#}"));
                                return;
                            }
                        };
                        let mut after = model2.clone();
                        crate::refmodel::Model::apply(&mut after, &crate::driver::writes_of(&batch));
                        let want = refmodel::root::<B3>(&after);
                        let got = fin.root().into_inner();
                        if got != want {
                            e1.lock().unwrap().push(format!("FinishedSession::root {} != reference root {}", hex(&got[..6]), hex(&want[..6])));
                        }
                        if let Some(w) = fin.take_witness() {
                            if let Err(m) = crate::histx::check_witness(&w, &batch, &model2, fin.prev_root().into_inner(), got, want) {
                                e1.lock().unwrap().push(format!("witness: {m}"));
                            }
                        }
                        sc::control_workers(false);
                        if let Err(e) = fin.commit(&n1) {
                            e1.lock().unwrap().push(format!("commit failed: {e:#}"));
                        }
                        let mut m = crate::refmodel::Model::new(true, 4);
                        m.kv = after;
                        m.seqn = n1.sync_seqn();
                        let keys: Vec<Key> = m.kv.keys().cloned().chain([mk(60, 0), mk(24, 1)]).collect();
                        if let Err(x) = crate::driver::audit::<B3>(&n1, &m, &keys, crate::driver::AuditFlags::ALL) {
                            e1.lock().unwrap().push(format!("after the commit: {x}"));
                        }
                        sc::control_workers(true);
                    })],
                    finish: Box::new(move || {
                        sc::control_workers(false);
                        let e = errs.lock().unwrap().clone();
                        drop(n);
                        if !e.is_empty() {
                            return Err(e.join("; "));
                        }
                        Ok("ok".into())
                    }),
                }
            }
            // beatree leaf/branch stage workers of ONE commit under scheduler control: 3 workers whose
            // ranges are three consecutive leaves; every one of them shrinks its leaf below the
            // merge threshold, so the workers negotiate node ownership (extend-range protocol)
            "M2del" | "M2shrink" | "M2wipe" => {
                let mut cf = cfg();
                cf.cc = 3;
                cf.rollback = false;
                let key = "branch".to_string();
                if !self.seeds.contains_key(&key) {
                    let seed = crate::histx::build_seed::<B3>("branch", &cf, &self.scratch);
                    let meta = crate::imgdec::decode_meta(&seed.image).expect("seed meta");
                    let vals = crate::imgdec::decode_values::<B3>(&seed.image, &meta).expect("seed decodes");
                    let mut leaves: Vec<Vec<Key>> = vals.leaves.iter().map(|l| l.cells.iter().map(|c| c.0).collect()).collect();
                    leaves.sort();
                    // three consecutive full leaves in the middle of the tree
                    let mid = leaves.len() / 2;
                    let pick: Vec<Vec<Key>> = (mid..leaves.len()).take_while(|i| i + 2 < leaves.len()).find(|i| (0..3).all(|j| leaves[i + j].len() >= 3)).map(|i| leaves[i..i + 3].to_vec()).expect("three full leaves");
                    self.seeds.insert(key.clone(), Arc::new((seed.image.clone(), seed.model.kv.clone(), pick)));
                }
                let seed = self.seeds[&key].clone();
                let dir = self.fresh();
                seed.0.materialize(&dir).expect("materialize");
                let n = Arc::new(open_nomt::<B3>(&dir, &cf).expect("open"));
                let errs = Arc::new(Mutex::new(Vec::<String>::new()));
                let (n1, e1) = (n.clone(), errs.clone());
                let variant = name.to_string();
                let seed2 = seed.clone();
                let dir2 = dir.clone();
                Execution {
                    threads: vec![Box::new(move || {
                        use crate::driver::Act;
                        let leaves = &seed2.2;
                        let mut batch: Vec<(Key, Act)> = vec![];
                        for (i, l) in leaves.iter().enumerate() {
                            match variant.as_str() {
                                // two of three values gone: every leaf is left with one 1300-byte cell
                                "M2del" => {
                                    batch.push((l[0], Act::Write(None)));
                                    batch.push((l[1], Act::Write(None)));
                                }
                                // all values shrink to one byte; the last leaf is deleted entirely
                                "M2shrink" => {
                                    for k in l.iter().take(3) {
                                        batch.push((*k, if i == 2 { Act::Write(None) } else { Act::Write(Some(val(40 + i as u8))) }));
                                    }
                                }
                                // the middle leaf disappears, its neighbours shrink
                                _ => {
                                    for (j, k) in l.iter().take(3).enumerate() {
                                        batch.push((*k, if i == 1 || j == 0 { Act::Write(None) } else { Act::Write(Some(val(50 + j as u8))) }));
                                    }
                                }
                            }
                        }
                        batch.sort_by(|a, b| a.0.cmp(&b.0));
                        let s = n1.begin_session(SessionParams::default());
                        let actuals = match crate::driver::Db::<B3>::actuals(&s, &batch, &seed2.1) {
                            Ok(a) => a,
                            Err(m) => {
                                e1.lock().unwrap().push(m);
                                return;
                            }
                        };
                        let fin = match s.finish(actuals) {
                            Ok(f) => f,
                            Err(e) => {
                                e1.lock().unwrap().push(format!("finish failed: {e:#}"));
                                return;
                            }
                        };
                        let mut after = seed2.1.clone();
                        crate::refmodel::Model::apply(&mut after, &crate::driver::writes_of(&batch));
                        sc::control_group(sc::BEATREE_WORKERS, true);
                        let r = fin.commit(&n1);
                        sc::control_group(sc::BEATREE_WORKERS, false);
                        if let Err(e) = r {
                            e1.lock().unwrap().push(format!("commit failed: {e:#}"));
                            return;
                        }
                        let mut m = crate::refmodel::Model::new(false, 0);
                        m.kv = after;
                        m.seqn = n1.sync_seqn();
                        // every key of the three leaves and their neighbours, plus a sample of the rest
                        let mut keys: Vec<Key> = leaves.iter().flatten().cloned().collect();
                        keys.extend(m.kv.keys().step_by(7).cloned());
                        if let Err(x) = crate::driver::audit::<B3>(&n1, &m, &keys, crate::driver::AuditFlags::ALL) {
                            e1.lock().unwrap().push(format!("after the commit: {x}"));
                            return;
                        }
                        // the directory must decode to exactly the model, with every page accounted for
                        match DirImage::snapshot(&dir2) {
                            Ok(img) => {
                                let opts = crate::imgdec::CheckOpts { structure: true, kv_equals_model: true, merkle: true, leaks: true };
                                if let Err(x) = crate::imgdec::check_image::<B3>(&img, &m.kv, &opts) {
                                    e1.lock().unwrap().push(format!("on-disk image after the commit: {x}"));
                                }
                            }
                            Err(e) => e1.lock().unwrap().push(format!("snapshot: {e}")),
                        }
                    })],
                    finish: Box::new(move || {
                        sc::control_group(sc::BEATREE_WORKERS, false);
                        let e = errs.lock().unwrap().clone();
                        drop(n);
                        if !e.is_empty() {
                            return Err(e.join("; "));
                        }
                        Ok("ok".into())
                    }),
                }
            }
            // two threads prove different keys through ONE session on a cold store (every proof has
            // to load merkle pages and a value leaf): scheduling points at every I/O submission and
            // at every wait for a completion of the calling threads
            "H7" => {
                let mut cf = cfg();
                cf.buckets = 4096;
                cf.rollback = false;
                let key = "bulk".to_string();
                if !self.seeds.contains_key(&key) {
                    let seed = crate::histx::build_seed::<B3>("bulk", &cf, &self.scratch);
                    self.seeds.insert(key.clone(), Arc::new((seed.image.clone(), seed.model.kv.clone(), vec![crate::histx::seed_keys("bulk")])));
                }
                let seed = self.seeds[&key].clone();
                let dir = self.fresh();
                seed.0.materialize(&dir).expect("materialize");
                let n = Arc::new(open_nomt::<B3>(&dir, &cf).expect("open"));
                let session = Arc::new(n.begin_session(SessionParams::default()));
                let root = n.root().into_inner();
                let errs = Arc::new(Mutex::new(Vec::<String>::new()));
                let mut threads: Vec<Box<dyn FnOnce() + Send>> = vec![];
                for t in 0..2usize {
                    let (sess, e, sd) = (session.clone(), errs.clone(), seed.clone());
                    threads.push(Box::new(move || {
                        let keys = &sd.2[0];
                        // keys far apart (different root children), one present key and one absent neighbour each
                        let k = keys[if t == 0 { 100 } else { 1200 }];
                        let mut absent = k;
                        absent[31] ^= 0x01;
                        for key in [k, absent] {
                            sc::control_group(sc::IO_POINTS, true);
                            let r = std::panic::catch_unwind(std::panic::AssertUnwindSafe(|| crate::driver::check_proof::<B3>(&sess, &key, &sd.1, root)));
                            match r {
                                Err(_) => e.lock().unwrap().push(format!("prove panicked at {}", crate::last_panic_location())),
                                Ok(Err(m)) => e.lock().unwrap().push(format!("proof of thread {t}: {m}")),
                                Ok(Ok(())) => {}
                            }
                        }
                    }));
                }
                Execution {
                    threads,
                    finish: Box::new(move || {
                        sc::control_group(sc::IO_POINTS, false);
                        let e = errs.lock().unwrap().clone();
                        drop(session);
                        drop(n);
                        if !e.is_empty() {
                            return Err(e.join("; "));
                        }
                        Ok("ok".into())
                    }),
                }
            }
            // beatree BRANCH-stage workers: seed `mixed2` has two bottom branch nodes; one commit
            // deletes most of the leaves below the first one (it falls below the merge threshold and
            // its worker has to ask the right neighbour for nodes) and touches leaves below the second
            "M3" | "M3b" => {
                let mut cf = cfg();
                cf.cc = 3;
                cf.rollback = false;
                cf.buckets = 4096;
                let key = "mixed2".to_string();
                if !self.seeds.contains_key(&key) {
                    let seed = crate::histx::build_seed::<B3>("mixed2", &cf, &self.scratch);
                    self.seeds.insert(key.clone(), Arc::new((seed.image.clone(), seed.model.kv.clone(), vec![crate::histx::seed_keys("mixed2")])));
                }
                let seed = self.seeds[&key].clone();
                let dir = self.fresh();
                seed.0.materialize(&dir).expect("materialize");
                let n = Arc::new(open_nomt::<B3>(&dir, &cf).expect("open"));
                let errs = Arc::new(Mutex::new(Vec::<String>::new()));
                let (n1, e1) = (n.clone(), errs.clone());
                let variant = name.to_string();
                let seed2 = seed.clone();
                let dir2 = dir.clone();
                Execution {
                    threads: vec![Box::new(move || {
                        use crate::driver::Act;
                        let keys = &seed2.2[0];
                        // cluster keys are those starting with 0x77 (700 of them, sorted)
                        let cluster: Vec<Key> = keys.iter().filter(|k| k[0] == 0x77 && k[1] == 0x77).cloned().collect();
                        let mut batch: Vec<(Key, Act)> = vec![];
                        let (lo, hi) = if variant == "M3" { (6usize, 430usize) } else { (120usize, 560usize) };
                        for k in &cluster[lo..hi] {
                            batch.push((*k, Act::Write(None)));
                        }
                        for i in [640usize, 641, 650, 651, 652, 690] {
                            batch.push((cluster[i], if i % 2 == 0 { Act::Write(None) } else { Act::Write(Some(val(60))) }));
                        }
                        batch.sort_by(|a, b| a.0.cmp(&b.0));
                        let s = n1.begin_session(SessionParams::default());
                        let actuals = match crate::driver::Db::<B3>::actuals(&s, &batch, &seed2.1) {
                            Ok(a) => a,
                            Err(m) => {
                                e1.lock().unwrap().push(m);
                                return;
                            }
                        };
                        let fin = match s.finish(actuals) {
                            Ok(f) => f,
                            Err(e) => {
                                e1.lock().unwrap().push(format!("finish failed: {e:#}"));
                                return;
                            }
                        };
                        let mut after = seed2.1.clone();
                        crate::refmodel::Model::apply(&mut after, &crate::driver::writes_of(&batch));
                        sc::control_group(sc::BEATREE_WORKERS, true);
                        let r = fin.commit(&n1);
                        sc::control_group(sc::BEATREE_WORKERS, false);
                        if let Err(e) = r {
                            e1.lock().unwrap().push(format!("commit failed: {e:#}"));
                            return;
                        }
                        let mut m = crate::refmodel::Model::new(false, 0);
                        m.kv = after;
                        m.seqn = n1.sync_seqn();
                        let mut akeys: Vec<Key> = keys.iter().step_by(5).cloned().collect();
                        akeys.extend(cluster[lo.saturating_sub(6)..lo + 3].iter().cloned());
                        akeys.extend(cluster[hi - 3..hi + 6].iter().cloned());
                        if let Err(x) = crate::driver::audit::<B3>(&n1, &m, &akeys, crate::driver::AuditFlags::ALL) {
                            e1.lock().unwrap().push(format!("after the commit: {x}"));
                            return;
                        }
                        match DirImage::snapshot(&dir2) {
                            Ok(img) => {
                                let opts = crate::imgdec::CheckOpts { structure: true, kv_equals_model: true, merkle: true, leaks: true };
                                if let Err(x) = crate::imgdec::check_image::<B3>(&img, &m.kv, &opts) {
                                    e1.lock().unwrap().push(format!("on-disk image after the commit: {x}"));
                                }
                            }
                            Err(e) => e1.lock().unwrap().push(format!("snapshot: {e}")),
                        }
                    })],
                    finish: Box::new(move || {
                        sc::control_group(sc::BEATREE_WORKERS, false);
                        let e = errs.lock().unwrap().clone();
                        drop(n);
                        if !e.is_empty() {
                            return Err(e.join("; "));
                        }
                        Ok("ok".into())
                    }),
                }
            }
            _ => panic!("unknown harness {name}"),
        }
    }

    /// L1/L2: "once the handle is dropped after a FAILED commit, the directory can be opened again
    /// and all background writers of the old handle have finished". One fixed order of events (no
    /// schedule enumeration): a commit that fails with bucket exhaustion while the value store has
    /// a lot to write, run with every sync-pipeline task held back until somebody waits for it
    /// (`verif::lazy`: a task nobody joins runs as late as possible); the handle is dropped, a
    /// second handle is opened, and every mutating or syncing file operation recorded after that
    /// open returned must come from the opening thread itself.
    fn run_late_writers(&mut self, name: &str) -> Outcome {
        use nomt::verif::io as vio;
        let mut out = Outcome::default();
        out.nontrivial = true;
        let dir = self.fresh();
        let mut cf = cfg();
        cf.buckets = 4;
        cf.rollback = name == "L2";
        let pair = |i: u8, side: u8| {
            let mut k = [0u8; 32];
            k[0] = (i << 2) | side;
            k[31] = 1;
            k
        };
        let n = open_nomt::<B3>(&dir, &cf).expect("open");
        let mut model = refmodel::Kv::new();
        let mut base: Vec<(Key, Option<Vec<u8>>)> = vec![];
        for i in 0..3u8 {
            for side in 0..2u8 {
                base.push((pair(i, side), Some(val(i * 2 + side + 1))));
            }
        }
        commit_kv(&n, &base).expect("base commit");
        for (k, v) in &base {
            model.insert(*k, v.clone().unwrap());
        }
        // needs a fifth page (the table has four buckets) and writes ≈ 60 value pages
        let big = |t: u8| Some(crate::util::value(7000 + t as u64, 70000));
        let failing: Vec<(Key, Option<Vec<u8>>)> = vec![(pair(0, 0), big(1)), (pair(1, 0), big(2)), (pair(3, 0), big(3)), (pair(3, 1), Some(val(9)))];
        vio::enable();
        nomt::verif::lazy::enable(true);
        let r = commit_kv(&n, &failing);
        let failed = match &r {
            Err(e) => format!("{e:#}").contains("exhaustion"),
            Ok(()) => false,
        };
        drop(n);
        let me = std::thread::current().name().unwrap_or("?").to_string();
        let second = crate::driver::open_nomt_retry::<B3>(&dir, &cf, 10);
        vio::mark("second-handle-open");
        // longer than the gate timeout of the lazy mode: whatever was never joined runs now
        std::thread::sleep(Duration::from_millis(2200));
        let (events, _) = vio::disable();
        nomt::verif::lazy::enable(false);
        out.transitions = events.len() as u64;
        if !failed {
            out.goals.push("commit-did-not-fail-as-planned");
            out.violation = Some(Violation::new("machinery", format!("harness {name}: the commit was expected to fail with bucket exhaustion: {r:?}")));
            return out;
        }
        out.goals.push("commit-failed-with-bucket-exhaustion");
        let n2 = match second {
            Ok(n2) => n2,
            Err(e) => {
                out.violation = Some(Violation::new(format!("reopen-after-failed-commit:{name}"), format!("harness {name}: the directory cannot be opened after the poisoned handle was dropped: {e:#}")));
                return out;
            }
        };
        let mark = events.iter().find(|e| matches!(&e.kind, vio::Kind::Mark(l) if l == "second-handle-open")).map(|e| e.seq).unwrap_or(u64::MAX);
        let late: Vec<String> = events
            .iter()
            .filter(|e| e.seq > mark && !matches!(e.kind, vio::Kind::Mark(_)) && e.thread != me)
            .map(|e| format!("{}:{} [{}]", e.file, e.kind.tag(), e.thread))
            .collect();
        if events.iter().any(|e| e.seq < mark && !matches!(e.kind, vio::Kind::Mark(_)) && e.thread != me) {
            out.goals.push("old-handle-wrote-before-the-unlock");
        }
        if !late.is_empty() {
            let first = late[0].clone();
            out.violation = Some(Violation::new(
                format!("writer-after-unlock:{}:{name}", first.split(' ').next().unwrap_or("")),
                format!("harness {name}: after a commit failed (bucket exhaustion) and the handle was dropped, a second handle was opened (so the directory lock had been released) and {} file operation(s) of the OLD handle were issued after that: {}", late.len(), late.iter().take(6).cloned().collect::<Vec<_>>().join(", ")),
            ));
            std::mem::forget(n2);
            return out;
        }
        // the second handle sees the state before the failed commit, and keeps working
        let mut m = crate::refmodel::Model::new(cf.rollback, 4);
        m.kv = model.clone();
        m.seqn = n2.sync_seqn();
        let keys: Vec<Key> = model.keys().cloned().chain([pair(3, 0), pair(3, 1)]).collect();
        if let Err(x) = crate::driver::audit::<B3>(&n2, &m, &keys, crate::driver::AuditFlags { seqn: false, ..crate::driver::AuditFlags::ALL }) {
            out.violation = Some(Violation::new(format!("state-after-failed-commit:{name}"), format!("harness {name}: second handle after the failed commit: {x}")));
            return out;
        }
        if let Err(e) = commit_kv(&n2, &[(pair(0, 0), Some(val(77)))]) {
            out.violation = Some(Violation::new(format!("second-handle-commit:{name}"), format!("harness {name}: commit on the second handle failed: {e:#}")));
        }
        out
    }

    /// L3: a commit whose hash-table write-out fails at its first page while ≈40 more page writes
    /// are queued on a slow device (2 ms per page write); the poisoned handle is dropped and a
    /// second handle opened: no page write of the old handle may be PERFORMED after that open
    /// returned ("lock released only after the I/O pool has drained").
    fn run_late_io(&mut self, name: &str) -> Outcome {
        use nomt::verif::io as vio;
        let mut out = Outcome::default();
        out.nontrivial = true;
        let dir = self.fresh();
        let mut cf = cfg();
        cf.buckets = 4096;
        cf.rollback = false;
        let pair = |i: u8, side: u8| {
            let mut k = [0u8; 32];
            k[0] = (i << 2) | side;
            k[31] = 1;
            k
        };
        // L5: three commit workers, a commit that rewrites ≈ 300 value leaves spread over all
        // three workers' ranges, and the very first leaf-page write fails: the leaf stage returns
        // with the first failed worker's error while its other workers are still at work
        let l5 = name == "L5";
        if l5 {
            cf.cc = 3;
        }
        let n = open_nomt::<B3>(&dir, &cf).expect("open");
        let mut batch: Vec<(Key, Option<Vec<u8>>)> = vec![];
        if l5 {
            let mut rng = crate::util::Lcg(77);
            let mut keys: Vec<Key> = (0..900).map(|_| rng.key()).collect();
            keys.sort();
            keys.dedup();
            let base: Vec<(Key, Option<Vec<u8>>)> = keys.iter().map(|k| (*k, Some(vec![1u8; 1000]))).collect();
            commit_kv(&n, &base).expect("base commit");
            batch = keys.iter().map(|k| (*k, Some(vec![2u8; 1100]))).collect();
        } else {
            commit_kv(&n, &[(pair(63, 0), Some(val(1)))]).expect("base commit");
            // 40 pairs: 40 fresh depth-1 pages, i.e. 40 bucket pages + meta pages in one write-out
            for i in 0..40u8 {
                batch.push((pair(i, 0), Some(val(2))));
                batch.push((pair(i, 1), Some(val(3))));
            }
        }
        vio::enable();
        vio::set_page_write_delay(if l5 { 500 } else { 2000 });
        vio::arm(vio::Fault { file: if l5 { "ln".into() } else { "ht".into() }, tag: "write".into(), ordinal: 0, persistent: false, page_at: vio::PageFaultAt::Submission, abort: false, cqe: None });
        let r = commit_kv(&n, &batch);
        vio::mark("old-handle-dropped");
        // a second thread races for the directory while this one is inside the drop
        let (dir2, cf2) = (dir.clone(), cf.clone());
        let opener = std::thread::Builder::new()
            .name("l3-opener".into())
            .spawn(move || {
                let t0 = Instant::now();
                loop {
                    match open_nomt::<B3>(&dir2, &cf2) {
                        Ok(n2) => {
                            vio::mark("second-handle-open");
                            return Ok(n2);
                        }
                        Err(e) if format!("{e:#}").contains("Failed to lock directory") && t0.elapsed() < Duration::from_secs(10) => std::thread::yield_now(),
                        Err(e) => return Err(e),
                    }
                }
            })
            .unwrap();
        // give the opener time to be spinning on the lock
        std::thread::sleep(Duration::from_millis(20));
        drop(n);
        let me = "l3-opener".to_string();
        let second = opener.join().expect("opener thread");
        std::thread::sleep(Duration::from_millis(400));
        vio::set_page_write_delay(0);
        let (events, fired) = vio::disable();
        out.transitions = events.len() as u64;
        if r.is_ok() || fired == 0 {
            out.violation = Some(Violation::new("machinery", format!("harness {name}: the injected hash-table write failure did not fail the commit (fired {fired}, result {r:?})")));
            return out;
        }
        out.goals.push(if l5 { "commit-failed-in-leaf-stage" } else { "commit-failed-in-ht-writeout" });
        let n2 = match second {
            Ok(n2) => n2,
            Err(e) => {
                out.violation = Some(Violation::new(format!("reopen-after-failed-commit:{name}"), format!("harness {name}: the directory cannot be opened after the poisoned handle was dropped: {e:#}")));
                return out;
            }
        };
        let mark = events.iter().find(|e| matches!(&e.kind, vio::Kind::Mark(l) if l == "second-handle-open")).map(|e| e.seq).unwrap_or(u64::MAX);
        let dropped = events.iter().find(|e| matches!(&e.kind, vio::Kind::Mark(l) if l == "old-handle-dropped")).map(|e| e.seq).unwrap_or(0);
        let queued_at_error = events.iter().filter(|e| (e.file == "ht" || l5) && matches!(e.kind, vio::Kind::Write { .. }) && e.seq < dropped).count();
        if queued_at_error > 10 {
            out.goals.push("page-writes-queued-behind-the-failure");
        }
        // operations of the old handle: everything issued before its drop returned, and anything
        // another thread issues later (the second handle is idle, its open runs on this thread)
        let late: Vec<String> = events
            .iter()
            .filter(|e| !matches!(e.kind, vio::Kind::Mark(_)))
            .filter(|e| (e.seq < dropped && e.performed.map_or(false, |p| p > mark)) || (e.seq > mark && e.thread != me))
            .map(|e| format!("{}:{}", e.file, e.kind.tag()))
            .collect();
        if !late.is_empty() {
            out.violation = Some(Violation::new(
                format!("io-after-unlock:{}:{name}", late[0]),
                format!("harness {name}: a commit failed in {} with page writes still queued;", if l5 { "the value-tree leaf stage (one of three workers)" } else { "the hash-table write-out" })+&format!(" the handle was dropped and a second handle opened (so the directory lock had been released), and {} file operation(s) of the OLD handle were performed after that: {}", late.len(), late.iter().take(6).cloned().collect::<Vec<_>>().join(", ")),
            ));
            std::mem::forget(n2);
            return out;
        }
        drop(n2);
        out
    }

    /// L4: a session with warm-up enabled is abandoned (dropped without `finish`), the handle is
    /// dropped, and the directory must become openable again within a bounded time (a background
    /// worker of the abandoned session must not keep the store - and its lock - alive).
    fn run_abandoned_warm_up(&mut self, name: &str) -> Outcome {
        let mut out = Outcome::default();
        out.nontrivial = true;
        let dir = self.fresh();
        let mut cf = cfg();
        cf.warm_up = true;
        cf.rollback = false;
        let n = open_nomt::<B3>(&dir, &cf).expect("open");
        commit_kv(&n, &[(ka(), Some(val(1))), (kb(), Some(val(2)))]).expect("base commit");
        for abandon_with_reads in [false, true] {
            let s = n.begin_session(SessionParams::default());
            s.warm_up(ka());
            s.warm_up(kb());
            if abandon_with_reads {
                let _ = s.read(ka());
            }
            drop(s);
            out.transitions += 1;
        }
        drop(n);
        match crate::driver::open_nomt_retry::<B3>(&dir, &cf, 8) {
            Ok(n2) => {
                out.goals.push("reopened-after-abandoned-warm-up-sessions");
                let a = n2.read(ka()).ok().flatten().map(|v| v[0]);
                if a != Some(1) {
                    out.violation = Some(Violation::new(format!("state-after-abandoned-session:{name}"), format!("harness {name}: second handle reads ka = {a:?}")));
                }
            }
            Err(e) => {
                out.violation = Some(Violation::new(
                    format!("lock-pinned-by-abandoned-session:{name}"),
                    format!("harness {name}: sessions with warm-up were dropped without finish, then the handle was dropped, but the directory could not be opened again within 8 s: {e:#}"),
                ));
            }
        }
        out
    }


    /// P1 / P1k: the holder of the directory is ANOTHER PROCESS. While it is alive (idle, and in
    /// the middle of a slow commit) every open from this process must fail, and a refused open of
    /// an idle holder's directory must leave every file byte-identical; after the holder is killed
    /// with SIGKILL (idle after an acknowledged commit: P1; in the middle of a commit: P1k) the
    /// directory must open at once and hold the last acknowledged state (P1k: that or the
    /// interrupted commit's).
    fn run_two_processes(&mut self, name: &str) -> Outcome {
        use std::io::{BufRead, BufReader, Write};
        let mut out = Outcome::default();
        out.nontrivial = true;
        let dir = self.fresh();
        let fail = |out: &mut Outcome, fp: &str, msg: String| {
            if out.violation.is_none() {
                out.violation = Some(Violation::new(format!("{fp}:{name}"), format!("harness {name}: {msg}")));
            }
        };
        {
            let n = open_nomt::<B3>(&dir, &cfg()).expect("create");
            commit_kv(&n, &[(ka(), Some(val(0))), (kb(), Some(val(0)))]).expect("base commit");
        }
        let exe = std::env::current_exe().expect("current_exe");
        let mut child = match std::process::Command::new(exe)
            .args(["holder", &dir.display().to_string()])
            .stdin(std::process::Stdio::piped())
            .stdout(std::process::Stdio::piped())
            .stderr(std::process::Stdio::null())
            .spawn()
        {
            Ok(c) => c,
            Err(e) => {
                fail(&mut out, "machinery", format!("spawn: {e}"));
                return out;
            }
        };
        let mut stdin = child.stdin.take().unwrap();
        let (tx, rx) = std::sync::mpsc::channel::<String>();
        let stdout = child.stdout.take().unwrap();
        std::thread::spawn(move || {
            for l in BufReader::new(stdout).lines().flatten() {
                if tx.send(l).is_err() {
                    break;
                }
            }
        });
        let wait_line = |want: &str, secs: u64| -> bool {
            let t0 = Instant::now();
            while t0.elapsed() < Duration::from_secs(secs) {
                if let Ok(l) = rx.recv_timeout(Duration::from_millis(50)) {
                    if l == want {
                        return true;
                    }
                }
            }
            false
        };
        let try_open = |cf: &Cfg| -> Result<(), String> {
            match std::panic::catch_unwind(|| open_nomt::<B3>(&dir, cf)) {
                Ok(Ok(n)) => {
                    drop(n);
                    Err("a second process opened the directory while the holder process is alive".into())
                }
                Ok(Err(_)) => Ok(()),
                Err(_) => Err("Nomt::open panicked instead of returning an error while the holder process is alive".into()),
            }
        };
        let mut other = cfg();
        other.buckets = 128;
        other.rollback = false;
        'run: {
            if !wait_line("READY", 20) {
                fail(&mut out, "machinery", "the holder process did not get ready".into());
                break 'run;
            }
            // 1. holder idle (it has committed v1): refused, and nothing on disk changes
            let before = DirImage::snapshot_with_lock(&dir).expect("snapshot");
            for cf in [cfg(), other.clone()] {
                out.transitions += 1;
                if let Err(m) = try_open(&cf) {
                    fail(&mut out, "two-handles", m);
                    break 'run;
                }
            }
            let after = DirImage::snapshot_with_lock(&dir).expect("snapshot");
            let d = before.diff(&after);
            if !d.is_empty() {
                fail(&mut out, "refused-open-modified-files", format!("an open refused because another process holds the directory changed files: {d:?}"));
                break 'run;
            }
            out.goals.push("refused-while-other-process-idle");
            // 2. holder in the middle of a slow commit (v2): still refused
            let _ = stdin.write_all(b"commit\n");
            let _ = stdin.flush();
            let t0 = Instant::now();
            let mut attempts = 0;
            let mut done = false;
            while t0.elapsed() < Duration::from_secs(20) {
                if name == "P1k" && attempts >= 3 {
                    break;
                }
                if let Ok(l) = rx.recv_timeout(Duration::from_millis(3)) {
                    if l == "DONE" {
                        done = true;
                        break;
                    }
                }
                out.transitions += 1;
                attempts += 1;
                if let Err(m) = try_open(&cfg()) {
                    fail(&mut out, "two-handles", format!("{m} (the holder was in the middle of a commit)"));
                    break 'run;
                }
            }
            if attempts > 0 {
                out.goals.push("refused-while-other-process-commits");
            }
            if name == "P1" && !done {
                fail(&mut out, "machinery", "the holder's commit did not finish within 20 s".into());
                break 'run;
            }
            // 3. the holder dies (SIGKILL): the directory opens at once, nothing acknowledged is lost
            let _ = child.kill();
            let _ = child.wait();
            out.goals.push(if done { "holder-killed-idle" } else { "holder-killed-mid-commit" });
            match std::panic::catch_unwind(|| open_nomt::<B3>(&dir, &cfg())) {
                Err(_) => fail(&mut out, "open-after-death-panic", "Nomt::open panicked on the directory of a killed holder".into()),
                Ok(Err(e)) => fail(&mut out, "open-after-death-failed", format!("the holder process was killed, but the directory does not open: {e:#}")),
                Ok(Ok(n)) => {
                    let a = n.read(ka()).ok().flatten().map(|v| v[0]);
                    let b = n.read(kb()).ok().flatten().map(|v| v[0]);
                    let ok = if done { a == Some(2) && b == Some(2) } else { a == b && (a == Some(1) || a == Some(2)) };
                    if !ok {
                        fail(&mut out, "state-after-death", format!("after the holder was killed ({}) the directory holds ka=v{a:?} kb=v{b:?}", if done { "its commit of v2 had been acknowledged" } else { "in the middle of its commit of v2 on v1" }));
                    } else if {
                        // the 70 000-byte value belongs to the v2 commit: all or nothing
                        let mut big = ka();
                        big[31] ^= 0x55;
                        let got = n.read(big).ok().flatten();
                        if a == Some(2) { got != Some(vec![7u8; 70_000]) } else { got.is_some() }
                    } {
                        fail(&mut out, "state-after-death", format!("after the holder was killed ka=v{a:?} but the large value of the v2 commit is {}", if a == Some(2) { "missing or damaged" } else { "present" }));
                    } else if let Err(e) = commit_kv(&n, &[(ka(), Some(val(3))), (kb(), Some(val(3)))]) {
                        fail(&mut out, "commit-after-death", format!("the new holder cannot commit: {e:#}"));
                    } else {
                        out.goals.push("reopened-after-holder-death");
                    }
                }
            }
        }
        let _ = child.kill();
        let _ = child.wait();
        out
    }

    fn run_case(&mut self, prop: &str, case: &Value) -> Outcome {
        let name = case["harness"].as_str().unwrap().to_string();
        if name == "P1" || name == "P1k" {
            return self.run_two_processes(&name);
        }
        if name == "L1" || name == "L2" {
            return self.run_late_writers(&name);
        }
        if name == "L3" || name == "L5" {
            return self.run_late_io(&name);
        }
        if name == "L4" {
            return self.run_abandoned_warm_up(&name);
        }
        // ("pbound": the preemption bound when "bound" is used for ordering the case list only)
        let bound = case.get("pbound").and_then(|b| b.as_u64()).unwrap_or_else(|| case["bound"].as_u64().unwrap()) as usize;
        let fixed: Option<Vec<usize>> = case.get("schedule").and_then(|s| s.as_array()).map(|a| a.iter().map(|x| x.as_u64().unwrap() as usize).collect());
        let max_exec = case["max_exec"].as_u64().unwrap_or(20000);
        let deadline = Instant::now() + Duration::from_secs(case["budget_s"].as_u64().unwrap_or(40));
        let mut mk = || self.make(&name);
        let res = explore(&mut mk, bound, fixed, max_exec, deadline);
        let mut out = Outcome::default();
        out.nontrivial = true;
        out.transitions = res.steps;
        out.states = res.traces.iter().cloned().collect();
        out.sig = fnv_str(&format!("{name}:{bound}:{}:{:?}", res.executions, res.outcomes));
        if res.outcomes.len() > 1 {
            out.goals.push("several-distinct-outcomes");
        }
        if res.capped {
            out.goals.push("execution-cap-hit");
        }
        for (label, goal) in [("ext.wait-response", "extend-range-requested"), ("leaf.wait-left", "leaf-worker-waited-for-left"), ("branch.wait-left", "branch-worker-waited-for-left"), ("merkle.publish", "merkle-root-page-published")] {
            if res.labels.iter().any(|l| l.contains(label)) {
                out.goals.push(goal);
            }
        }
        SCHED_STATS.lock().unwrap().push(json!({"harness": name, "bound": bound, "schedules": res.executions, "steps": res.steps, "distinct_outcomes": res.outcomes.iter().collect::<Vec<_>>(), "capped": res.capped}));
        if let Some((fp, msg, schedule, trace)) = res.violation {
            let fp = format!("{fp}:{name}");
            let _ = prop;
            out.violation = Some(Violation::new(fp, format!("harness {name}, schedule {:?} [{}]: {msg}", schedule, trace.join(" "))));
        }
        out
    }
}

pub static SCHED_STATS: Mutex<Vec<Value>> = Mutex::new(Vec::new());

/// Cases exploring the schedules of the merkle update workers (used by the C02 and C13 plans).
pub fn worker_schedule_cases(thorough: bool) -> Vec<Value> {
    let mut cases = vec![];
    for h in ["M2del", "M2shrink", "M2wipe"] {
        // the whole schedule space of these harnesses is a few hundred executions: bound 99 = all
        for b in [0u64, 1, 2, 99] {
            cases.push(json!({"harness": h, "bound": b, "max_exec": if thorough { 400000 } else { 3000 }, "budget_s": if thorough { 1500 } else { 35 }}));
        }
    }
    // branch-stage workers (two bottom branch nodes, the first one emptied below the merge
    // threshold): ≈ 115 ms per execution and a schedule space in the thousands — preemption-bounded
    for h in ["M3", "M3b"] {
        for b in if thorough { vec![0u64, 1, 2] } else { vec![0u64] } {
            cases.push(json!({"harness": h, "bound": b, "max_exec": if thorough { 400000 } else { 3000 }, "budget_s": if thorough { 1500 } else { 35 }}));
        }
    }
    for h in ["M1", "M1d"] {
        for b in if thorough { vec![0u64, 1, 2, 3, 99] } else { vec![0u64, 1, 2] } {
            cases.push(json!({"harness": h, "bound": b, "max_exec": if thorough { 400000 } else { 3000 }, "budget_s": if thorough { 1500 } else { 35 }}));
        }
    }
    cases
}

impl Engine for SchedX {
    fn plan(&self, prop: &str, tier: &str) -> Plan {
        let thorough = tier == "thorough";
        let (harnesses, rule): (Vec<&str>, &str) = match prop {
            "C15" => (
                vec!["H1", "H2", "H3", "H3nb", "H3ov", "H4", "H5", "H6", "H6w", "H6r", "H7", "H8", "H8ov", "H8r", "H8rr", "H9", "H10", "H10w", "H1ov", "H1ovr"],
                "schedx: closed harnesses of 2–3 real threads on two colliding keys (same value leaf, same merkle page), values stamped with the writer's version, rollback enabled: H1 reader∥blocking writer; H2 reader∥non-blocking writer (prepared changeset, retried blocking when handed back); H3/H3nb/H3ov two writers with changesets on one base (blocking / non-blocking / overlay) followed by reopen and rollback(1); H4 reader∥rollback; H5 reader∥writer∥writer; H6 one thread with two overlapping sessions∥writer; H6w one thread, warm-up on and one commit worker, two overlapping sessions, the second one finished while the first is alive; H6r one thread, rollback enabled, three overlapping sessions, the third one finished while the first two are alive; H1ov/H1ovr a reader whose session is built on an UNCOMMITTED overlay (it reads the two committed keys, which the overlay does not cover, twice, and the overlay's own key) ∥ a blocking commit / a rollback(1): such a session is a reader like any other — one version, and the committed root does not move until it is dropped; H10/H10w three threads, each begins a session, reads and finishes it into a changeset that is dropped — three coexisting sessions in every order of begins and finishes, with rollback on (H10: a reverse-delta worker per session) and with warm-up on as well (H10w: a warm-up worker per session): no session waits for another one to end; H8/H8ov/H8r a changeset or overlay prepared on the current state ∥ rollback(1) [∥ a reader]: the writers serialise — commit then rollback (final = the state before the commit, one further rollback possible) or rollback then commit (the changeset is refused, final = the rolled-back state); H8rr two rollback(1) racing after three commits (both served, then a third one empties the store); H9 a prepared changeset in a blocking commit ∥ a witnessed session being finished (point before the merkle join): the committed root may not change between begin_session and the return of finish(), every witnessed path verifies against the session's previous root, exactly one of the two wins; H7 two threads proving different keys (present and absent) through ONE shared session on a cold store, with scheduling points at every I/O submission and every wait for a completion of the calling threads (the scheduler lets outstanding reads complete before it decides, so the enabled set does not depend on I/O speed). EVERY schedule of the visible points (API lock acquisitions with parking_lot's writer-preferring FIFO fairness modelled in the scheduler, the read-transaction wait, harness points between session operations) with ≤c preemptions is executed on a fresh store, c = 0,1,2 (thorough 3). Oracle per schedule: terminates (no enabled thread = deadlock); all reads and the proof of one session agree with one committed version and with session.prev_root(); exactly one of two competing changesets wins; final state, root and state after reopen are the winner's; rollback(1) restores the base. One case = one harness × one bound; evaluations = cases, transitions = scheduler steps, states = distinct schedules (trace digests).",
            ),
            "C20" => (
                vec!["O1", "O2", "O2x3", "O3", "O4", "L1", "L2", "L3", "L4", "L5", "P1", "P1k"],
                "schedx: O1 two threads open one existing directory concurrently; O2 / O2x3 two / three threads open one non-existent directory (creation race) with different options; O3 a live handle ∥ a second opener that retries after the first is dropped; O4 a holder that drops ∥ two openers (three-party hand-over). L1 / L2 (rollback off / on; one fixed order of events, bounds do not apply): a commit on a full 4-bucket table that fails with bucket exhaustion while the value store has ≈60 pages to write, executed with every sync-pipeline task held back until somebody waits for it (a task nobody joins runs as late as possible); the handle is dropped, a second handle is opened, and every mutating or syncing file operation recorded after that open returned must come from the opening thread — 'all background writers of the old handle have finished'; the second handle shows the state before the failed commit and commits. L3: a commit whose hash-table write-out fails at its first page (injected) while ≈40 more page writes are queued on a slow device (2 ms per write): after drop and second open no page write of the old handle may be performed. L5: three commit workers, a commit rewriting ≈300 value leaves whose first leaf-page write fails (the leaf stage returns with the first failed worker's error while the other workers are still at work), slow device, racing opener: again no page write of the old handle after the second open. L4: sessions with warm-up abandoned without finish, handle dropped: the directory must become openable again within 8 s. P1 / P1k: the holder is ANOTHER PROCESS (a child running the same binary, which itself has spawned a child — `sleep` — that outlives it, so that descriptors the store leaves inheritable survive the holder): while it is idle every open from this process (same and different options) must fail and leave every file byte-identical; while it is in the middle of a slow commit opens must still fail; after it is killed with SIGKILL — idle after an acknowledged commit (P1) or in the middle of the commit (P1k) — the directory must open at once and hold the last acknowledged state (P1k: that or the interrupted commit's) and accept a commit. Process death at every file operation: for 12 (thorough: all) explicit histories of C03 the last operation is re-run in a child process that aborts right before its k-th file operation, for every k; the directory must open at once in this process and the new handle must commit. Every schedule of the open/create/lock/drop points (emptiness check, lock acquisition, creation of meta / hash table / value files, flock try and unlock, I/O-pool shutdown) with ≤c preemptions, c = 0,1,2 (thorough 3). Oracle: never two handles alive at once; a refused open returns an error and leaves every file byte-identical (holder idle); every successful opener's handle commits and reads back; whenever some opener succeeded, the directory afterwards opens and holds the last committed state (no racing opener may wipe or re-initialise it).",
            ),
            _ => panic!("schedx has no plan for {prop}"),
        };
        let bounds: Vec<u64> = if thorough { vec![0, 1, 2, 3] } else { vec![0, 1, 2] };
        let mut cases = vec![];
        for b in bounds {
            for h in &harnesses {
                // three contenders: one preemption less (the schedule count grows fastest there)
                if (*h == "O2x3" || *h == "H5" || *h == "H8r") && b + 1 > if thorough { 3 } else { 2 } {
                    continue;
                }
                // fixed-order harnesses: once
                if (h.starts_with('L') || h.starts_with('P') || *h == "H6w" || *h == "H6r") && b > 0 {
                    continue;
                }
                cases.push(json!({"harness": h, "bound": b, "max_exec": if thorough { 200000 } else { 4000 }, "budget_s": if thorough { 1500 } else { 40 }}));
            }
        }
        if prop == "C20" {
            // the holder dies (process abort) right before each file operation of an operation:
            // the kernel drops its lock, the directory must open at once
            let mut ks = crate::plans::kill_cases(thorough);
            if !thorough {
                ks.truncate(12);
            }
            for k in ks.iter_mut() {
                k["nested"] = json!(false);
            }
            cases.extend(ks);
        }
        let mut p = Plan::new(cases, rule);
        p.budget_s = if thorough { 1700 } else { 55 };
        p.assumptions = vec![
            "sequentially consistent interleavings at the granularity of the scheduling points; code between two points runs without preemption (its shared accesses are all behind the locks the points guard)".into(),
            "helper threads of an API call (I/O pool, sync pools) run freely while their API thread is the one released".into(),
        ];
        p
    }

    fn run(&mut self, prop: &str, case: &Value) -> Outcome {
        if case.get("mode").is_some() {
            // process-death cases are executed by the crash engine
            return self.crash.get_or_insert_with(crate::crashx::CrashX::new).run(prop, case);
        }
        self.run_case(prop, case)
    }
}

/// `mc holder <dir>`: the other process of harnesses P1 / P1k. Opens the directory, commits v1,
/// prints READY; on "commit" commits v2 on a slow device (a pause after every page write) and
/// prints DONE; exits when stdin closes.
pub fn holder_main(dir: &str) -> i32 {
    use std::io::BufRead;
    let n = match open_nomt::<B3>(Path::new(dir), &cfg()) {
        Ok(n) => n,
        Err(e) => {
            println!("OPEN-FAILED {e:#}");
            return 3;
        }
    };
    if commit_kv(&n, &[(ka(), Some(val(1))), (kb(), Some(val(1)))]).is_err() {
        println!("COMMIT-FAILED");
        return 3;
    }
    // the holder has a child process of its own that outlives it (whatever descriptors the store
    // leaves inheritable go with it): the death of the holder alone must release the directory
    let _ = std::process::Command::new("sleep")
        .arg("20")
        .stdin(std::process::Stdio::null())
        .stdout(std::process::Stdio::null())
        .stderr(std::process::Stdio::null())
        .spawn();
    println!("READY");
    for l in std::io::stdin().lock().lines().flatten() {
        if l == "commit" {
            // ≈ 20 page writes (an overflow value) at 8 ms each
            nomt::verif::io::set_page_write_delay(8000);
            let mut kv = vec![(ka(), Some(val(2))), (kb(), Some(val(2)))];
            let mut big = ka();
            big[31] ^= 0x55;
            kv.push((big, Some(vec![7u8; 70_000])));
            if commit_kv(&n, &kv).is_err() {
                println!("COMMIT-FAILED");
                return 3;
            }
            nomt::verif::io::set_page_write_delay(0);
            println!("DONE");
        }
    }
    drop(n);
    0
}

pub fn _hexkeep(k: &Key) -> String {
    hex(&k[..2])
}
pub type _Unused = BTreeMap<u8, u8>;
