//! Small helpers shared by all engines: keys, deterministic values, sparse directory images,
//! scratch directories.

use std::collections::BTreeMap;
use std::io::{Read, Seek, SeekFrom, Write};
use std::path::{Path, PathBuf};

pub type Key = [u8; 32];

pub const PAGE: usize = 4096;

/// Key from a bit string ("0101…"); remaining bits are filled with `fill`.
pub fn key_from_bits(bits: &str, fill: bool) -> Key {
    let mut k = if fill { [0xffu8; 32] } else { [0u8; 32] };
    for (i, c) in bits.chars().enumerate() {
        let byte = i / 8;
        let mask = 0x80u8 >> (i % 8);
        match c {
            '1' => k[byte] |= mask,
            '0' => k[byte] &= !mask,
            _ => panic!("bad bit"),
        }
    }
    k
}

pub fn bit(k: &Key, i: usize) -> bool {
    (k[i / 8] >> (7 - i % 8)) & 1 == 1
}

pub fn flip_bit(k: &Key, i: usize) -> Key {
    let mut k = *k;
    k[i / 8] ^= 0x80u8 >> (i % 8);
    k
}

pub fn shared_bits(a: &Key, b: &Key) -> usize {
    for i in 0..256 {
        if bit(a, i) != bit(b, i) {
            return i;
        }
    }
    256
}

pub fn hex(b: &[u8]) -> String {
    let mut s = String::with_capacity(b.len() * 2);
    for x in b {
        s.push_str(&format!("{:02x}", x));
    }
    s
}

pub fn unhex(s: &str) -> Vec<u8> {
    (0..s.len() / 2)
        .map(|i| u8::from_str_radix(&s[2 * i..2 * i + 2], 16).unwrap())
        .collect()
}

pub fn key_unhex(s: &str) -> Key {
    let v = unhex(s);
    let mut k = [0u8; 32];
    k.copy_from_slice(&v);
    k
}

/// Short printable form of a key.
pub fn kshort(k: &Key) -> String {
    format!("{}..{}", hex(&k[..3]), hex(&k[30..]))
}

/// Deterministic value of `len` bytes derived from `tag`. Two different tags give different
/// contents (for len ≥ 1), so a stale value is distinguishable from a fresh one.
pub fn value(tag: u64, len: usize) -> Vec<u8> {
    let mut x = tag.wrapping_mul(0x9E3779B97F4A7C15) ^ 0xD1B54A32D192ED03;
    let mut v = Vec::with_capacity(len);
    while v.len() < len {
        x ^= x << 13;
        x ^= x >> 7;
        x ^= x << 17;
        let b = x.to_le_bytes();
        let n = (len - v.len()).min(8);
        v.extend_from_slice(&b[..n]);
    }
    if len > 0 {
        v[0] = (tag & 0xff) as u8;
    }
    v
}

pub struct Lcg(pub u64);
impl Lcg {
    pub fn next(&mut self) -> u64 {
        self.0 = self.0.wrapping_mul(6364136223846793005).wrapping_add(1442695040888963407);
        self.0 >> 11
    }
    pub fn key(&mut self) -> Key {
        let mut k = [0u8; 32];
        for c in k.chunks_mut(8) {
            c.copy_from_slice(&self.next().to_le_bytes());
        }
        k
    }
}

// ---------------------------------------------------------------------------------------------
// Sparse images of a database directory.

/// A file as its length plus its non-zero 4 KiB pages.
#[derive(Clone, Default, PartialEq, Eq, Debug)]
pub struct SparseFile {
    pub len: u64,
    pub pages: BTreeMap<u64, Vec<u8>>, // page index -> PAGE bytes (last one may be shorter)
}

impl SparseFile {
    pub fn read_from(path: &Path) -> std::io::Result<Self> {
        let mut f = std::fs::File::open(path)?;
        let len = f.metadata()?.len();
        let mut pages = BTreeMap::new();
        // Use SEEK_DATA to skip holes quickly.
        let mut off: i64 = 0;
        use std::os::fd::AsRawFd;
        let fd = f.as_raw_fd();
        loop {
            let data = unsafe { libc::lseek(fd, off, libc::SEEK_DATA) };
            if data < 0 {
                break;
            }
            let hole = unsafe { libc::lseek(fd, data, libc::SEEK_HOLE) };
            let hole = if hole < 0 { len as i64 } else { hole };
            let start = (data as u64 / PAGE as u64) * PAGE as u64;
            let mut pos = start;
            f.seek(SeekFrom::Start(pos))?;
            while pos < hole as u64 && pos < len {
                let n = ((len - pos) as usize).min(PAGE);
                let mut buf = vec![0u8; n];
                f.read_exact(&mut buf)?;
                if buf.iter().any(|b| *b != 0) {
                    pages.insert(pos / PAGE as u64, buf);
                }
                pos += n as u64;
            }
            off = hole;
            if off as u64 >= len {
                break;
            }
        }
        Ok(SparseFile { len, pages })
    }

    pub fn write_to(&self, path: &Path) -> std::io::Result<()> {
        let mut f = std::fs::File::create(path)?;
        f.set_len(self.len)?;
        for (pn, data) in &self.pages {
            let off = pn * PAGE as u64;
            if off >= self.len {
                continue;
            }
            let n = ((self.len - off) as usize).min(data.len());
            f.seek(SeekFrom::Start(off))?;
            f.write_all(&data[..n])?;
        }
        Ok(())
    }

    pub fn set_len(&mut self, len: u64) {
        if len < self.len {
            let first_gone = (len + PAGE as u64 - 1) / PAGE as u64;
            let keys: Vec<u64> = self.pages.range(first_gone..).map(|(k, _)| *k).collect();
            for k in keys {
                self.pages.remove(&k);
            }
            // Partial last page: zero the tail.
            if len % PAGE as u64 != 0 {
                let pn = len / PAGE as u64;
                if let Some(p) = self.pages.get_mut(&pn) {
                    let keep = (len % PAGE as u64) as usize;
                    if p.len() > keep {
                        p.truncate(keep);
                    }
                }
            }
        }
        self.len = len;
    }

    pub fn write_at(&mut self, off: u64, data: &[u8]) {
        let end = off + data.len() as u64;
        if end > self.len {
            self.len = end;
        }
        let mut pos = off;
        let mut rest = data;
        while !rest.is_empty() {
            let pn = pos / PAGE as u64;
            let in_page = (pos % PAGE as u64) as usize;
            let n = (PAGE - in_page).min(rest.len());
            let page = self.pages.entry(pn).or_insert_with(Vec::new);
            if page.len() < in_page + n {
                page.resize(in_page + n, 0);
            }
            page[in_page..in_page + n].copy_from_slice(&rest[..n]);
            pos += n as u64;
            rest = &rest[n..];
        }
    }

    pub fn read_at(&self, off: u64, len: usize) -> Vec<u8> {
        let mut out = vec![0u8; len];
        let mut pos = off;
        let mut done = 0usize;
        while done < len {
            let pn = pos / PAGE as u64;
            let in_page = (pos % PAGE as u64) as usize;
            let n = (PAGE - in_page).min(len - done);
            if let Some(p) = self.pages.get(&pn) {
                if p.len() > in_page {
                    let m = (p.len() - in_page).min(n);
                    out[done..done + m].copy_from_slice(&p[in_page..in_page + m]);
                }
            }
            pos += n as u64;
            done += n;
        }
        out
    }

    pub fn page(&self, pn: u64) -> Vec<u8> {
        self.read_at(pn * PAGE as u64, PAGE)
    }

    /// Logical equality (trailing zeros inside stored pages are ignored).
    pub fn same_as(&self, other: &SparseFile) -> bool {
        if self.len != other.len {
            return false;
        }
        let keys: std::collections::BTreeSet<u64> =
            self.pages.keys().chain(other.pages.keys()).cloned().collect();
        for k in keys {
            if self.page(k) != other.page(k) {
                return false;
            }
        }
        true
    }
}

/// A whole database directory (without `.lock`).
#[derive(Clone, Default, Debug)]
pub struct DirImage {
    pub files: BTreeMap<String, SparseFile>,
}

impl DirImage {
    pub fn snapshot(dir: &Path) -> std::io::Result<Self> {
        let mut files = BTreeMap::new();
        for e in std::fs::read_dir(dir)? {
            let e = e?;
            let name = e.file_name().to_string_lossy().into_owned();
            if name == ".lock" {
                continue;
            }
            files.insert(name, SparseFile::read_from(&e.path())?);
        }
        Ok(DirImage { files })
    }

    /// The directory including its `.lock` file (content and length): "a refused open does not
    /// modify any file" covers the lock file too.
    pub fn snapshot_with_lock(dir: &Path) -> std::io::Result<Self> {
        let mut img = Self::snapshot(dir)?;
        let lock = dir.join(".lock");
        if lock.exists() {
            img.files.insert(".lock".to_string(), SparseFile::read_from(&lock)?);
        }
        Ok(img)
    }

    pub fn materialize(&self, dir: &Path) -> std::io::Result<()> {
        let _ = std::fs::remove_dir_all(dir);
        std::fs::create_dir_all(dir)?;
        for (name, f) in &self.files {
            f.write_to(&dir.join(name))?;
        }
        Ok(())
    }

    pub fn diff(&self, other: &DirImage) -> Vec<String> {
        let mut d = vec![];
        for (n, f) in &self.files {
            match other.files.get(n) {
                None => d.push(format!("{n}: only in first")),
                Some(g) => {
                    if !f.same_as(g) {
                        d.push(format!("{n}: differ (len {} vs {})", f.len, g.len));
                    }
                }
            }
        }
        for n in other.files.keys() {
            if !self.files.contains_key(n) {
                d.push(format!("{n}: only in second"));
            }
        }
        d
    }
}

// ---------------------------------------------------------------------------------------------

/// Per-process scratch root in tmpfs, removed on drop.
pub struct Scratch {
    pub root: PathBuf,
    /// the directory belongs to another (parent) process, which removes it
    borrowed: bool,
}

impl Scratch {
    pub fn new(tag: &str) -> Self {
        // a child whose scratch must outlive it (it is going to be killed; stale-scratch cleaning
        // goes by the pid in the name) works below a directory owned by its parent
        if let Ok(r) = std::env::var("MC_SCRATCH_ROOT") {
            let root = PathBuf::from(r).join(tag);
            std::fs::create_dir_all(&root).unwrap();
            return Scratch { root, borrowed: true };
        }
        let base = if Path::new("/dev/shm").is_dir() {
            PathBuf::from("/dev/shm")
        } else {
            std::env::temp_dir()
        };
        let root = base.join(format!("nomt-mc.{}.{}", tag, std::process::id()));
        let _ = std::fs::remove_dir_all(&root);
        std::fs::create_dir_all(&root).unwrap();
        Scratch { root, borrowed: false }
    }
    pub fn dir(&self, name: &str) -> PathBuf {
        self.root.join(name)
    }
}

impl Drop for Scratch {
    fn drop(&mut self) {
        if self.borrowed {
            return;
        }
        if std::env::var("MC_KEEP").is_ok() {
            eprintln!("MC_KEEP: leaving {}", self.root.display());
            return;
        }
        let _ = std::fs::remove_dir_all(&self.root);
    }
}

pub fn now() -> std::time::Instant {
    std::time::Instant::now()
}
