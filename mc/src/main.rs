#![allow(dead_code)]
//! `mc` — model-checking harness for thrumdev/nomt. See /verif/DESIGN.md.
//!
//!   mc check  <PROP> [--tier quick|thorough]     coordinator: spawn workers, merge, evidence
//!   mc worker <PROP> <tier> <part> <nparts> <out> one partition of the exploration
//!   mc case   <PROP>                              run one case read from stdin (isolated child)
//!   mc replay <file>                              re-execute a counterexample file
//!   mc plan   <PROP> [--tier ..]                  print the number of cases and a few of them

mod crashx;
mod driver;
mod engine;
mod histx;
mod imgdec;
mod plans;
mod plans2;
mod proofx;
mod refmodel;
mod schedx;
mod util;

use engine::Engine;
use serde_json::Value;
use std::sync::Mutex;

static LAST_PANIC: Mutex<String> = Mutex::new(String::new());
static PANICS: Mutex<Vec<(String, String)>> = Mutex::new(Vec::new());

pub fn last_panic_location() -> String {
    LAST_PANIC.lock().unwrap().clone()
}

/// Location of the most recent panic whose message equals `msg` (panics on pool threads are
/// re-raised on the API thread without passing through the hook again).
pub fn panic_location_for(msg: &str) -> String {
    let g = PANICS.lock().unwrap();
    g.iter().rev().find(|(m, _)| m == msg).map(|(_, l)| l.clone()).unwrap_or_else(|| LAST_PANIC.lock().unwrap().clone())
}

/// Extra, property-specific evidence computed by the coordinator itself.
pub fn extra_evidence(prop: &str, tier: &str) -> Option<Value> {
    if prop == "C13" && tier == "thorough" {
        return Some(loom_supplement());
    }
    None
}

/// Supplementary exhaustive check for C13: the repository's own loom models of `rw_pass_cell`
/// (region exclusivity of the page-cache write pass shared by the merkle workers), run with
/// `--cfg loom` against /repo's current tree.
fn loom_supplement() -> Value {
    let vdir = engine::verif_dir();
    let log = vdir.join("out").join("loom-rw_pass_cell.log");
    let out = std::process::Command::new("cargo")
        .current_dir("/repo")
        .env("RUSTFLAGS", "--cfg loom")
        .env("LOOM_MAX_PREEMPTIONS", "3")
        .env("CARGO_NET_OFFLINE", "true")
        .env("CARGO_TARGET_DIR", vdir.join("target").join("loom"))
        .args(["test", "-p", "nomt", "--lib", "--release", "--offline", "rw_pass_cell"])
        .output();
    match out {
        Err(e) => serde_json::json!({"loom_rw_pass_cell": {"ran": false, "error": e.to_string()}}),
        Ok(o) => {
            let text = format!("{}\n{}", String::from_utf8_lossy(&o.stdout), String::from_utf8_lossy(&o.stderr));
            let _ = std::fs::write(&log, &text);
            let passed = text
                .lines()
                .filter(|l| l.starts_with("test result:"))
                .filter_map(|l| l.split(" passed").next().and_then(|x| x.rsplit(' ').next()).and_then(|n| n.parse::<u64>().ok()))
                .sum::<u64>();
            let built = !text.contains("could not compile");
            let failed = text.contains("test result: FAILED") || text.lines().any(|l| l.contains("... FAILED"));
            let mut v = serde_json::json!({"loom_rw_pass_cell": {"ran": built, "tests_passed": passed, "max_preemptions": 3, "log": log.display().to_string()}});
            if built && failed {
                v["__violation"] = serde_json::json!({"msg": "a loom model of rw_pass_cell (write-pass region exclusivity) fails", "replay": log.display().to_string()});
            }
            v
        }
    }
}

/// History engine + crash engine behind one property (cases carrying a "mode" go to crashx).
struct Multi {
    hist: histx::HistX,
    crash: crashx::CrashX,
    sched: schedx::SchedX,
}

impl Engine for Multi {
    fn plan(&self, prop: &str, tier: &str) -> engine::Plan {
        self.hist.plan(prop, tier)
    }
    fn run(&mut self, prop: &str, case: &Value) -> engine::Outcome {
        if case.get("harness").is_some() {
            self.sched.run(prop, case)
        } else if case.get("mode").is_some() {
            self.crash.run(prop, case)
        } else {
            self.hist.run(prop, case)
        }
    }
}

fn make_engine(prop: &str) -> Option<Box<dyn Engine>> {
    match prop {
        "C02" | "C12" | "C13" | "C16" | "C19" => Some(Box::new(Multi {
            hist: histx::HistX::new(),
            crash: crashx::CrashX::new(),
            sched: schedx::SchedX::new(),
        })),
        "C01" | "C05" | "C06" | "C09" | "C10" | "C11" => Some(Box::new(histx::HistX::new())),
        "C03" | "C04" | "C14" | "C17" => Some(Box::new(crashx::CrashX::new())),
        "C15" | "C20" => Some(Box::new(schedx::SchedX::new())),
        "C07" | "C08" | "C18" => Some(Box::new(proofx::ProofX::new())),
        _ => None,
    }
}

fn tier_arg(args: &[String]) -> String {
    let mut tier = std::env::var("VERIF_TIER").unwrap_or_else(|_| "quick".to_string());
    let mut i = 0;
    while i < args.len() {
        if args[i] == "--tier" && i + 1 < args.len() {
            tier = args[i + 1].clone();
        }
        i += 1;
    }
    tier
}

fn main() {
    // Record where panics happen (innermost nomt frame if possible) for fingerprints; keep the
    // default hook quiet in workers.
    std::panic::set_hook(Box::new(|info| {
        let loc = info
            .location()
            .map(|l| format!("{}:{}", l.file().rsplit("/repo/").next().unwrap_or(l.file()), l.line()))
            .unwrap_or_else(|| "?".into());
        *LAST_PANIC.lock().unwrap() = loc.clone();
        {
            let msg = if let Some(s) = info.payload().downcast_ref::<&str>() {
                s.to_string()
            } else if let Some(s) = info.payload().downcast_ref::<String>() {
                s.clone()
            } else {
                String::new()
            };
            let mut g = PANICS.lock().unwrap();
            if g.len() > 64 {
                g.remove(0);
            }
            g.push((msg, loc.clone()));
        }
        if std::env::var("MC_VERBOSE").is_ok() {
            eprintln!("panic: {info}");
        }
    }));
    let args: Vec<String> = std::env::args().collect();
    if args.len() < 2 {
        eprintln!("usage: mc check|worker|case|replay|plan …");
        std::process::exit(2);
    }
    let code = match args[1].as_str() {
        "check" => {
            let prop = &args[2];
            let tier = tier_arg(&args[3..]);
            engine::check_main(&make_engine, prop, &tier)
        }
        "worker" => {
            let prop = &args[2];
            let tier = &args[3];
            let part: usize = args[4].parse().unwrap();
            let nparts: usize = args[5].parse().unwrap();
            let out = std::path::PathBuf::from(&args[6]);
            let engine = make_engine(prop).expect("engine");
            engine::worker_main(engine, prop, tier, part, nparts, &out)
        }
        "case" => {
            let prop = &args[2];
            let mut s = String::new();
            use std::io::Read;
            std::io::stdin().read_to_string(&mut s).unwrap();
            let case: Value = serde_json::from_str(&s).expect("case json");
            let mut engine = make_engine(prop).expect("engine");
            let o = engine::run_guarded(engine.as_mut(), prop, &case);
            println!("{}", serde_json::json!({"outcome": engine::outcome_to_json(&o)}));
            0
        }
        "killchild" => crashx::kill_child_main(&args[2]),
        "holder" => schedx::holder_main(&args[2]),
        "walsize" => {
            // stdin: one history per line ({"hist": …, "target": n}); prints END offset and blob length
            use std::io::BufRead;
            let mut cx = crashx::CrashX::new();
            for l in std::io::stdin().lock().lines().flatten() {
                let v: Value = serde_json::from_str(&l).expect("json");
                let r = cx.walsize(&args[2], &v["hist"], v["target"].as_u64().unwrap() as usize);
                println!("{} {:?}", v["tag"], r);
            }
            0
        }
        "replay" => {
            let data = std::fs::read(&args[2]).expect("read replay file");
            let v: Value = serde_json::from_slice(&data).expect("replay json");
            let prop = v["property"].as_str().unwrap().to_string();
            let mut engine = make_engine(&prop).expect("engine");
            let plan = engine.plan(&prop, "quick");
            let died = v["fingerprint"].as_str().map_or(false, |f| f.starts_with("abort") || f.starts_with("hang"));
            let o = if plan.isolate {
                engine::run_isolated(&prop, &v["case"], plan.case_timeout_s, plan.timeout_is_violation)
            } else if died {
                let own = v["case"].get("budget_s").and_then(|x| x.as_u64()).unwrap_or(0);
                engine::run_isolated(&prop, &v["case"], if own > 0 { own + 120 } else { 60 }, true)
            } else {
                engine::run_guarded(engine.as_mut(), &prop, &v["case"])
            };
            let all: Vec<_> = o.violation.into_iter().chain(o.more.into_iter()).collect();
            if all.is_empty() {
                println!("replay: property held on this case");
                0
            } else {
                println!("VIOLATION property={} replay={}", prop, args[2]);
                for viol in all {
                    println!("  fingerprint: {}", viol.fingerprint);
                    println!("  {}", viol.msg);
                }
                1
            }
        }
        "decode" => {
            let img = util::DirImage::snapshot(std::path::Path::new(&args[2])).expect("snapshot");
            let meta = imgdec::decode_meta(&img);
            println!("{:?}", meta);
            if let Ok(meta) = &meta {
                if let Ok(ht) = imgdec::HtImage::new(&img, meta) {
                    for b in 0..ht.buckets {
                        let m = ht.meta[b as usize];
                        if m != 0 {
                            let page = ht.bucket_page(b);
                            let mut label = [0u8; 32];
                            label.copy_from_slice(&page[4096 - 32..]);
                            println!("bucket {b}: meta {m:#04x} label-path {:?} elided {:#x}", imgdec::page_path_from_bytes(&label), u64::from_le_bytes(page[4096 - 40..4096 - 32].try_into().unwrap()));
                        }
                    }
                }
            }
            let opts = imgdec::CheckOpts { structure: true, kv_equals_model: false, merkle: true, leaks: true };
            match imgdec::check_image::<driver::B3>(&img, &Default::default(), &opts) {
                Ok(r) => { println!("{:#?}", r); 0 }
                Err(e) => { println!("IMAGE ERROR: {e}"); 1 }
            }
        }
        "plan" => {
            let prop = &args[2];
            let tier = tier_arg(&args[3..]);
            let engine = make_engine(prop).expect("engine");
            let plan = engine.plan(prop, &tier);
            println!("{} cases; budget {}s; isolate={}", plan.cases.len(), plan.budget_s, plan.isolate);
            let all = std::env::var("MC_PLAN_ALL").is_ok();
            for c in plan.cases.iter().take(if all { usize::MAX } else { 3 }) {
                println!("{}", c);
            }
            if let Some(c) = plan.cases.last() {
                println!("… {}", c);
            }
            0
        }
        other => {
            eprintln!("unknown subcommand {other}");
            2
        }
    };
    std::process::exit(code);
}
