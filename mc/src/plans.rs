//! Per-property exploration plans for the history engine: which seed states, universes, alphabets
//! and bounds are enumerated in the quick and thorough tiers.

use crate::driver::Cfg;
use crate::engine::Plan;
use crate::histx::{add_io_reverse, add_pool_poison, add_quiet, enum_commit_histories, sort_by_bound, via_overlays, with_control_everywhere};
use serde_json::{json, Value};

fn acts(list: &[(&str, Option<usize>)]) -> Vec<Value> {
    list.iter()
        .map(|(c, s)| match s {
            Some(s) => json!([c, s]),
            None => json!([c]),
        })
        .collect()
}

fn cfg_small() -> Cfg {
    Cfg::default()
}

fn mk_case(
    seed: &str,
    universe: Vec<&str>,
    cfg: &Cfg,
    audit: &str,
    final_reopen: bool,
) -> impl Fn(Vec<Value>, usize) -> Value {
    let seed = seed.to_string();
    let universe: Vec<String> = universe.iter().map(|s| s.to_string()).collect();
    let cfg = cfg.to_json();
    let audit = audit.to_string();
    move |ops, b| json!({"bound": b, "seed": seed, "universe": universe, "cfg": cfg, "audit": audit, "ops": ops, "final_reopen": final_reopen})
}

pub fn hist_plan(prop: &str, tier: &str) -> Plan {
    let thorough = tier == "thorough";
    match prop {
        "C01" => plan_c01(thorough),
        "C02" => plan_c02(thorough),
        "C05" => crate::plans2::plan_c05(thorough),
        "C06" => crate::plans2::plan_c06(thorough),
        "C09" => crate::plans2::plan_c09(thorough),
        "C10" => crate::plans2::plan_c10(thorough),
        "C11" => crate::plans2::plan_c11(thorough),
        "C12" => crate::plans2::plan_c12(thorough),
        "C13" => crate::plans2::plan_c13(thorough),
        "C16" => plan_c16(thorough),
        "C19" => plan_c19(thorough),
        _ => panic!("no history plan for {prop}"),
    }
}

// Value-size classes straddling the in-leaf / overflow / pointer-page boundaries.
const SIZES_FULL: [usize; 8] = [0, 1, 1332, 1333, 5000, 61380, 61381, 70000];

fn plan_c01(thorough: bool) -> Plan {
    let mut cases = vec![];
    let cfg = cfg_small();
    // (a) all histories of D commits with ≤ B key actions over U1, from the empty store
    let mut a_full: Vec<(&str, Option<usize>)> = vec![("r", None), ("d", None), ("rd", None)];
    for s in SIZES_FULL.iter() {
        // quick: the two mid-range sizes are left to the thorough tier
        if !thorough && (*s == 5000 || *s == 61380) {
            continue;
        }
        a_full.push(("w", Some(*s)));
    }
    a_full.push(("rw", Some(1)));
    if thorough {
        a_full.push(("rw", Some(1333)));
    }
    let a_full = acts(&a_full);
    if thorough {
        // 3 commits with ≤ 2 deviations, and 2 commits with ≤ 3 (sized to finish within the budget)
        cases.extend(enum_commit_histories(3, 6, 2, &a_full, &mk_case("empty", vec!["U1"], &cfg, "values", false)));
        // (three deviations with the mid-size alphabet: the full one would be half a million histories)
        let a_mid = acts(&[("r", None), ("d", None), ("w", Some(1)), ("w", Some(1333)), ("w", Some(70000)), ("rw", Some(1)), ("rd", None)]);
        cases.extend(enum_commit_histories(2, 6, 3, &a_mid, &mk_case("empty", vec!["U1"], &cfg, "values", false)));
    } else {
        cases.extend(enum_commit_histories(2, 6, 2, &a_full, &mk_case("empty", vec!["U1"], &cfg, "values", false)));
    }
    cases.extend(crate::plans2::exact_fit_leaf_family("values"));
    cases.extend(crate::plans2::overflow_boundary_family("values", thorough));
    // (b) all single batches over four keys with a reduced alphabet, then one follow-up batch
    let a_small = acts(&[("w", Some(1)), ("w", Some(1333)), ("d", None), ("rw", Some(40))]);
    cases.extend(enum_commit_histories(1, 4, 4, &a_small, &mk_case("empty", vec!["U4"], &cfg, "values", false)));
    // (c) structural seeds: actions land inside the hard structure
    let a_seed = acts(&[
        ("w", Some(1300)),
        ("w", Some(1)),
        ("w", Some(1333)),
        ("d", None),
        ("rw", Some(1300)),
        ("w", Some(70000)),
    ]);
    let (d, b) = if thorough { (3, 2) } else { (2, 2) };
    cases.extend(enum_commit_histories(
        d,
        6,
        b,
        &a_seed,
        &mk_case("leaf", vec!["seed:0,2,3,5", "U4"][..1].to_vec().into_iter().chain(["CL0:0-2"]).collect(), &cfg, "values", false),
    ));
    let a_br = acts(&[("w", Some(1300)), ("d", None), ("w", Some(1333)), ("w", Some(1))]);
    cases.extend(enum_commit_histories(
        2,
        6,
        if thorough { 3 } else { 2 },
        &a_br,
        &mk_case("branch", vec!["seed:0,1,299,300,598,599"], &cfg, "values", false),
    ));
    cases.extend(enum_commit_histories(
        2,
        4,
        2,
        &a_br,
        &mk_case("bulk", vec!["seed:0,700,1499", "CL0:0-1"], &cfg, "values", false),
    ));
    let a_ovf = acts(&[("w", Some(1)), ("d", None), ("w", Some(70000)), ("w", Some(5000))]);
    cases.extend(enum_commit_histories(
        2,
        2,
        2,
        &a_ovf,
        &mk_case("ovf", vec!["seed:0", "CL0:0-1"], &cfg, "values", false),
    ));
    // (c2) two large overflow values released in one commit, then re-allocation from the free list
    let a_ovf2 = if thorough { acts(&[("d", None), ("w", Some(70000)), ("w", Some(1)), ("w", Some(61381))]) } else { acts(&[("d", None), ("w", Some(70000))]) };
    cases.extend(enum_commit_histories(3, 3, if thorough { 4 } else { 3 }, &a_ovf2, &mk_case("ovf2", vec!["seed:0,1,2"], &cfg, "values", false)));
    // (c3) the boundary between prefix-compressed and uncompressed separators in a branch node
    let a_mixed = acts(&[("w", Some(1300)), ("d", None), ("w", Some(1))]);
    cases.extend(enum_commit_histories(2, 8, 2, &a_mixed, &mk_case("mixed2", vec!["seed:300,698,699,700,701,702,730,759"], &cfg, "values", false)));
    // one commit with ≤3 actions around the boundary: rewrite the first scattered leaves in place
    // while merging cluster leaves (three consecutive cluster keys share a leaf pairwise)
    let a_mixed2 = acts(&[("d", None), ("w", Some(1300))]);
    {
        let mut cs = enum_commit_histories(1, 9, 3, &a_mixed2, &mk_case("mixed2", vec!["seed:300,301,302,700,701,702,703,704,705"], &cfg, "values", false));
        for c in cs.iter_mut() {
            c["audit_seed_keys"] = json!(true);
        }
        cases.extend(cs);
    }
    cases.extend(pfx_family("values"));
    cases.extend(cache_pressure_family("values", thorough));
    cases.extend(cold_leaf_insert_family("values", if thorough { 3 } else { 2 }));
    // a run of empty values between two large ones in one leaf: every commit of ≤4 actions that
    // inserts before the leaf / rewrites its ends (splits whose split point falls in front of the
    // kept cells), then one of the empties deleted; every seed key audited
    {
        let a_run = if thorough { acts(&[("w", Some(1300)), ("w", Some(70)), ("d", None), ("w", Some(0))]) } else { acts(&[("w", Some(1300)), ("w", Some(70)), ("d", None)]) };
        let mut cs = enum_commit_histories(1, 6, 4, &a_run, &mk_case("emptyrun", vec!["BEFORE40", "seed:0,3,6"], &cfg, "values", true));
        for c in cs.iter_mut() {
            c["audit_seed_keys"] = json!(true);
            let mut ops = c["ops"].as_array().unwrap().clone();
            ops.push(json!({"c": [[4, "d"]]}));
            c["ops"] = Value::Array(ops);
        }
        cases.extend(cs);
    }
    // queue-shaped workloads: the lowest keys deleted in runs of 1–7 (a leaf of the `wide` / `branch`
    // seeds holds three keys: whole leading leaves disappear, partly or exactly) while a far leaf is
    // rewritten in the same commit; then the next run; every seed key audited after each commit
    for seed in ["wide", "branch"] {
        let last = if seed == "wide" { 1499 } else { 599 };
        for a in 1u64..=7 {
            for b in 1u64..=7 {
                if !thorough && (a + b) % 2 == 1 && a != 3 && a != 6 {
                    continue;
                }
                let ops = vec![
                    json!({"c": [[0, "dn", a], [last, "w", 5]]}),
                    json!({"c": [[a, "dn", b]]}),
                    json!({"c": [[a + b, "dn", 3], [last / 2, "w", 5]]}),
                ];
                let mut cse = mk_case(seed, vec!["seed:all"], &cfg, "values", true)(ops, 2);
                cse["audit_seed_keys"] = json!(true);
                cases.push(cse);
            }
        }
    }
    // (d) the same with a reopen inserted at every position (control symbol), reduced alphabet
    let base = enum_commit_histories(2, 4, 2, &a_small, &mk_case("leaf", vec!["seed:0,1,4,5"], &cfg, "values", false));
    cases.extend(with_control_everywhere(&base, &json!({"reopen": {}})));
    // (e) several commit workers
    let mut cfg3 = cfg_small();
    cfg3.cc = 3;
    cases.extend(enum_commit_histories(2, 6, if thorough { 3 } else { 1 }, &a_br, &mk_case("branch", vec!["seed:0,1,299,300,598,599"], &cfg3, "values", false)));
    add_quiet(&mut cases, if thorough { 2 } else { 4 });
    add_io_reverse(&mut cases, if thorough { 5 } else { 20 });
    if thorough {
        add_pool_poison(&mut cases, 6, 0xA5);
    }
    sort_by_bound(&mut cases);
    let mut p = Plan::new(
        cases,
        "histx: every history of D commits whose batches deviate from the empty batch in at most B key actions (bound = number of deviations), over colliding key universes, from seed states {empty, leaf(6x1300B), branch(600 keys sharing 30 bytes), bulk(1500 keys), ovf(5MiB value), ovf2(two 70000-byte and one 61381-byte value), mixed2(700 clustered + 60 scattered keys), pfx(450 keys sharing 247 bits + 3 far keys: a branch node built with stopped prefix compression; macro action 'delete a run of 100..400 cluster keys' + in-place rewrite of a far key, every seed key audited); queue-shaped workloads on wide / branch (the lowest keys deleted in runs of 1..7 while a far leaf is rewritten, three commits, every seed key audited); one commit right after a cold reopen mixing reads / rewrites / deletes in the first of two leaves with inserts of new keys below, between and above everything on disk (rollback off, leaf cache 0 / 4 MiB, 1 / 3 workers: the leaf stage finds some leaves cached and fetches the others); exact-fit leaves (cells of 34+len bytes summing to every total 4090..4100 around the leaf body size 4094, as three near-maximum or four ~1000-byte cells, alone or followed by two more cells, in one commit / with the exact cell inserted late / overwritten to size); overflow-size boundaries (one key written with s1, overwritten with s2, deleted, reopened, for pairs of sizes from {1332,1333,4091,4092,4093,4096,4097,8184,8185,61380,61381,65468,65469,65472,65473} — quick: every size first and second, thorough: every ordered pair)}; action alphabet = read, delete, read-then-delete, write of sizes {0,1,1332,1333,5000,61380,61381,70000}, read-then-write; reopen inserted at every position for a sub-family; after every commit Nomt::read and Session::read of every universe key are compared with a BTreeMap model. Non-trivial = at least one write was committed; distinct = distinct (case, final-state digest).",
    );
    p.budget_s = if thorough { 1500 } else { 55 };
    p.assumptions = vec![
        "values are compared through Nomt::read and Session::read only (C01 says nothing about roots)".into(),
        "commit_concurrency 1 and 3; other options at small fixed values (see C13 for the option space)".into(),
    ];
    p
}

fn plan_c02(thorough: bool) -> Plan {
    let mut cases = vec![];
    let cfg = cfg_small();
    let a = acts(&[("w", Some(1)), ("d", None), ("w", Some(2))]);
    // geometry family: 14 keys diverging at depths around the 6-bit page boundaries
    cases.extend(enum_commit_histories(
        if thorough { 3 } else { 2 },
        14,
        if thorough { 3 } else { 2 },
        &a,
        &mk_case("empty", vec!["U2"], &cfg, "root", true),
    ));
    // elision threshold from both sides, below a depth-2 page and below a depth-3 page
    for p in [12usize, 18] {
        for n in [18u32, 19, 20, 21, 22] {
            let seed = format!("cl{p}x{n}");
            let uni = format!("CL{p}:{}-{}", n.saturating_sub(2), n + 2);
            let uni0 = format!("CL{p}:0-1");
            for cc in if thorough { vec![1usize, 2, 4] } else { vec![1usize] } {
                let mut c = cfg_small();
                c.cc = cc;
                cases.extend(enum_commit_histories(
                    2,
                    5,
                    if thorough { 3 } else { 2 },
                    &a,
                    &mk_case(&seed, vec![&uni, &uni0], &c, "root", true),
                ));
            }
        }
    }
    // the 2-commit histories of the 19/20/21-key clusters and of three key pairs (fresh depth-1 pages) once
    // more with both batches prepared as a CHAIN of overlays (the second built while the first is
    // uncommitted: pages born in the first and touched by the second) and committed in order; roots
    // of both overlays, after each commit and after the final reopen
    {
        let mut base: Vec<Value> = vec![];
        for (p, n) in [(12usize, 19u32), (12, 20), (18, 20), (18, 21)] {
            let seed = format!("cl{p}x{n}");
            let uni = format!("CL{p}:{}-{}", n.saturating_sub(2), n + 2);
            let uni0 = format!("CL{p}:0-1");
            base.extend(enum_commit_histories(2, 5, 2, &a, &mk_case(&seed, vec![&uni, &uni0], &cfg, "root", true)));
        }
        let a2 = acts(&[("w", Some(1)), ("d", None)]);
        base.extend(enum_commit_histories(2, 6, 3, &a2, &mk_case("empty", vec!["PAIRS:3"], &cfg, "root", true)));
        let chains = via_overlays(&base, true);
        // the chains once more with warm-up on (the warm-up worker of a session on an uncommitted
        // overlay seeks through the ancestors' pages) and with three commit workers (a worker
        // without keys finishes last and handles the root page)
        for (key, val, every) in [("warm_up", json!(true), if thorough { 1 } else { 2 }), ("cc", json!(3), if thorough { 1 } else { 3 })] {
            for (i, c) in chains.iter().enumerate() {
                if i % every == 0 {
                    let mut n = c.clone();
                    n["cfg"][key] = val.clone();
                    cases.push(n);
                }
            }
        }
        cases.extend(chains);
    }
    // worker counts over keys spread over several root-child ranges
    for cc in if thorough { vec![2usize, 3, 4, 64] } else { vec![3usize] } {
        let mut c = cfg_small();
        c.cc = cc;
        cases.extend(enum_commit_histories(2, 14, 2, &a, &mk_case("empty", vec!["U2"], &c, "root", true)));
    }
    cases.extend(crate::plans2::tombstone_family("root", thorough));
    cases.extend(crate::plans2::sparse_cluster_promotion_family("root", thorough));
    // the extremes of the key space (all-zero / all-one keys and their neighbours)
    cases.extend(enum_commit_histories(2, 6, if thorough { 3 } else { 2 }, &a, &mk_case("empty", vec!["EXT"], &cfg, "root", true)));
    // roots of finished sessions on overlay chains: an ancestor inserts "round" keys (the exclusive
    // upper end of the key range of the sub-trie on their left), a descendant writes into that
    // sub-trie, whose only leaf is on disk; both orders of the two batches, chains of 2 and 3
    {
        let w = |k: u64, s: u64| json!([k, "w", s]);
        let b_round = vec![w(2, 1), w(3, 1)];
        let b_left = vec![w(1, 1)];
        for (first, second) in [(b_round.clone(), b_left.clone()), (b_left.clone(), b_round.clone())] {
            let ops = vec![
                json!({"ov": {"id": 0, "on": [], "b": first}}),
                json!({"ov": {"id": 1, "on": [0], "b": second}}),
                json!({"ov": {"id": 2, "on": [1, 0], "b": [[0, "d"]]}}),
                json!({"ovc": 0}),
                json!({"ovc": 1}),
                json!({"ovc": 2}),
            ];
            for (wu, cc) in [(false, 1usize), (true, 1), (false, 3), (true, 3)] {
                let mut c2 = cfg.clone();
                c2.warm_up = wu;
                c2.cc = cc;
                cases.push(json!({"bound": 3, "seed": "round", "universe": ["ROUND"], "cfg": c2.to_json(), "audit": "root", "ops": ops, "final_reopen": true}));
            }
        }
    }
    add_quiet(&mut cases, if thorough { 1 } else { 3 });
    add_io_reverse(&mut cases, if thorough { 5 } else { 15 });
    add_pool_poison(&mut cases, if thorough { 4 } else { 16 }, 0xA5);
    add_pool_poison(&mut cases, if thorough { 5 } else { 17 }, 0x5A);
    cases.extend(crate::schedx::worker_schedule_cases(thorough));
    sort_by_bound(&mut cases);
    let mut p = Plan::new(
        cases,
        "histx: every history of D commits with at most B key actions {insert, delete, overwrite} over (i) a 14-key family diverging at bits {0,1,5,6,7,11,12,13,17,18,127,254,255} and (ii) clusters of 18..22 keys below one depth-2 and one depth-3 merkle page (page-elision threshold from both sides), for 1..64 commit workers, and (iii) the tombstone family (16/32-bucket tables × 16 bitbox seeds, 10 pages, every page / adjacent pair of pages removed, cold reopen, re-insert, reopen), (iiib) roots of sessions on overlay chains in which an ancestor inserts 'round' keys (prefix·1·0…0) and a descendant writes into the sub-trie on their left whose only leaf is on disk, (iiic) the 2-commit cluster and key-pair (fresh depth-1 pages) histories prepared as a chain of two overlays (the second built on the uncommitted first) and committed in order — also with warm-up on (every batch key warmed up by the session on the uncommitted overlay) and with three commit workers, (iiid) 'quiet' copies (no reads between the operations) of every second history that starts from a seed state, (iiie) the sparse-cluster promotion family — seeds of 18/19 leaves under one 12-bit prefix with a lone leaf L high in the elided depth-2 page, universe {L, three absent keys sharing 14/16/18 bits with L, two fillers, two present keys}, all 3-commit histories with ≤B' actions plus 'chain and promotion in one commit, then every single action on it', each with the page pool handing out buffers full of 0xA5, of 0x5A and as they come (verif knob: the contents of an allocated page are undefined) — and a 1-in-16 / 1-in-17 sample of all histories once more with poisoned buffers, and (iv) every schedule with ≤2 (thorough: all) preemptions of the three merkle update workers of one commit (worker start, publishing of child-page roots, hand-back of the write pass, root-page phase) under the controlled scheduler; FinishedSession::root, Nomt::root after each commit and after a final reopen are compared with an independent from-scratch recursive trie over the model's key-value set. Non-trivial = at least one write committed. Also ALL schedules (a few hundred per batch) of the three beatree leaf-stage workers of one commit whose ranges are three consecutive leaves that all fall below the merge threshold (three batches: two of three values deleted / values shrunk and last leaf deleted / middle leaf deleted), i.e. of the extend-range protocol between neighbouring workers (poll left neighbour, send request, wait for response, wait for left neighbour to conclude, join in completion order): after every schedule the values, root and proofs equal the model and the directory decodes (independent decoder) to exactly the model with every page accounted for. And the branch stage: seed with two bottom branch nodes, one commit deleting 420–440 consecutive keys (≈ 140 leaves) so that the first node falls below the merge threshold and its worker requests nodes from its right neighbour, with three leaf-stage workers running under the scheduler as well (2 batches; every schedule with 0 preemptions quick, ≤1 and a capped ≤2 thorough).",
    );
    p.budget_s = if thorough { 1500 } else { 55 };
    p.assumptions = vec!["collision resistance of the hasher (equal roots ⇔ equal tries)".into()];
    p
}

fn set_all(cases: &mut Vec<Value>, key: &str, v: Value) {
    for c in cases.iter_mut() {
        c[key] = v.clone();
    }
}

/// The structural history family shared by C16 and C19: value-file structure (splits, merges,
/// overflow chains, free lists) and merkle-page structure (elision threshold, tombstones).
fn structural_family(thorough: bool, buckets: &[u32]) -> Vec<Value> {
    let mut cases = vec![];
    for &bk in buckets {
        let mut cfg = cfg_small();
        cfg.buckets = bk;
        let a_small = acts(&[("w", Some(1)), ("w", Some(1333)), ("d", None), ("w", Some(70000)), ("w", Some(1300)), ("w", Some(61381)), ("w", Some(65000))]);
        cases.extend(enum_commit_histories(if thorough { 3 } else { 2 }, 4, if thorough { 3 } else { 2 }, &a_small, &mk_case("empty", vec!["U4"], &cfg, "noproof", false)));
        let a_seed = acts(&[("w", Some(1300)), ("w", Some(1)), ("d", None), ("w", Some(70000))]);
        cases.extend(enum_commit_histories(2, 6, 2, &a_seed, &mk_case("leaf", vec!["seed:0,2,3,5", "CL0:0-2"], &cfg, "noproof", false)));
        let a = acts(&[("w", Some(1)), ("d", None)]);
        let mut through_overlays = vec![];
        for p in [12usize, 18] {
            for n in [19u32, 20, 21] {
                let seed = format!("cl{p}x{n}");
                let uni = format!("CL{p}:{}-{}", n - 2, n + 2);
                let cs = enum_commit_histories(2, 4, if thorough { 3 } else { 2 }, &a, &mk_case(&seed, vec![&uni], &cfg, "noproof", false));
                if p == 12 || thorough {
                    through_overlays.extend(cs.iter().cloned());
                }
                cases.extend(cs);
            }
        }
        // depth-1 pages created and cleared: pairs of keys that each need a page of their own
        if bk == buckets[0] || thorough {
            let pairs = enum_commit_histories(2, 8, if thorough { 3 } else { 2 }, &a, &mk_case("empty", vec!["PAIRS:4"], &cfg, "noproof", false));
            through_overlays.extend(pairs.iter().cloned());
            cases.extend(pairs);
            // the same page-creating / page-clearing histories with every commit made through an
            // overlay (one by one, and as a chain committed in order)
            cases.extend(via_overlays(&through_overlays, false));
            cases.extend(via_overlays(&through_overlays, true));
        }
        if bk >= 1024 {
            let a_ovf2 = acts(&[("d", None), ("w", Some(70000)), ("w", Some(1))]);
            cases.extend(enum_commit_histories(2, 3, 3, &a_ovf2, &mk_case("ovf2", vec!["seed:0,1,2"], &cfg, "noproof", false)));
            let a_mixed = acts(&[("w", Some(1300)), ("d", None)]);
            cases.extend(enum_commit_histories(2, 8, 2, &a_mixed, &mk_case("mixed2", vec!["seed:300,698,699,700,701,702,730,759"], &cfg, "noproof", false)));
            cases.extend(enum_commit_histories(1, 9, 3, &a_mixed, &mk_case("mixed2", vec!["seed:300,301,302,700,701,702,703,704,705"], &cfg, "noproof", false)));
            let a_br = acts(&[("w", Some(1300)), ("d", None), ("w", Some(1))]);
            cases.extend(enum_commit_histories(2, 6, 2, &a_br, &mk_case("branch", vec!["seed:0,1,299,300,598,599"], &cfg, "noproof", false)));
            cases.extend(enum_commit_histories(2, 4, 2, &a_br, &mk_case("bulk", vec!["seed:0,700,1499", "CL0:0-1"], &cfg, "noproof", false)));
            let a_ovf = acts(&[("w", Some(1)), ("d", None), ("w", Some(70000))]);
            cases.extend(enum_commit_histories(2, 2, 2, &a_ovf, &mk_case("ovf", vec!["seed:0", "CL0:0-1"], &cfg, "noproof", false)));
        }
    }
    cases
}

fn plan_c16(thorough: bool) -> Plan {
    let mut cases = structural_family(thorough, if thorough { &[64, 256, 4096] } else { &[64, 4096] });
    cases.extend(pfx_family("noproof"));
    cases.extend(crate::plans2::tombstone_family("noproof", thorough));
    cases.extend(crate::plans2::sparse_cluster_promotion_family("noproof", thorough).into_iter().filter(|c| thorough || c["bound"].as_u64().unwrap_or(0) >= 2));
    cases.extend(crate::plans2::exact_fit_leaf_family("noproof"));
    cases.extend(crate::plans2::overflow_boundary_family("noproof", thorough));
    set_all(&mut cases, "image", json!("c16"));
    for (h, t, b) in crash_histories(false).into_iter().chain(root_layer_histories(false)) {
        if b >= 3 || h["seed"] != "empty" {
            cases.push(json!({"mode": "c03", "hist": h, "target": t, "bound": b, "cap": 4, "nested": false, "decode": true}));
        }
    }
    add_quiet(&mut cases, if thorough { 1 } else { 3 });
    add_io_reverse(&mut cases, if thorough { 5 } else { 15 });
    if thorough {
        add_pool_poison(&mut cases, 6, 0xA5);
    }
    sort_by_bound(&mut cases);
    let mut p = Plan::new(
        cases,
        "histx + imgdec: every history of ≤D commits with ≤B key actions over structural seed states (empty, leaf, branch, bulk, ovf, clusters of 19..21 keys below a depth-2 and a depth-3 merkle page) with hash tables of 64/256/4096 buckets; the page-creating / page-clearing part of the family (clusters around the elision threshold, pairs of keys that each need a depth-1 page) also with every commit made through an overlay — one by one, and as a chain of overlays committed in order; 'quiet' copies without reads between the operations; the sparse-cluster promotion family of C02 (poisoned page-pool buffers) and the exact-fit leaf family of C01; at every quiescent point (after open and after every commit) the directory is decoded by an independent decoder written from the documented formats: every key in exactly one leaf, strict order within/across leaves, keys bounded by separators, bbn labels, overflow chains complete with matching value hash and disjoint pages, used ∩ free = ∅, no page used twice, decoded key-value map = model; every full bucket found exactly once through its own probe sequence, every node reachable in every stored page = the reference trie's node at that position, needed pages either stored or marked elided (and then absent with all descendants), no unreachable stored page. Plus every process-crash cut (see C03) of the explicit crash histories (rollback, pruning, overlay commits, page promotion from elided to stored, pages cleared by delete-only commits): the image recovered by Nomt::open is decoded the same way.",
    );
    p.budget_s = if thorough { 1500 } else { 55 };
    p.assumptions = vec!["the decoder implements the documented layouts (trusted, ~600 lines, shares no code with nomt)".into(), "crash-recovered images are covered by the C03 check, which applies the same decoder".into()];
    p
}

fn mk_multiworker_case(seed: &str, cfg: &Cfg, ops: Vec<Value>) -> Value {
    json!({"seed": seed, "universe": ["seed:all"], "cfg": cfg.to_json(), "audit": "values", "ops": ops, "bound": 1, "final_reopen": true})
}

fn plan_c19(thorough: bool) -> Plan {
    let mut cases = structural_family(thorough, if thorough { &[64, 4096, 64000] } else { &[64, 4096] });
    cases.extend(crate::plans2::tombstone_family("noproof", thorough));
    // changesets prepared on an uncommitted overlay and committed directly after it (pages the
    // overlay created are 'dependent' in the prepared changeset: one bucket, not two)
    cases.extend(crate::plans2::prepared_on_overlay_family().into_iter().map(|mut c| {
        c["audit"] = json!("noproof");
        c
    }));
    cases.extend(crate::plans2::overflow_boundary_family("noproof", thorough));
    set_all(&mut cases, "image", json!("c19"));
    for (h, t, b) in crash_histories(false).into_iter().chain(root_layer_histories(false)) {
        if b >= 3 || h["seed"] != "empty" {
            cases.push(json!({"mode": "c03", "hist": h, "target": t, "bound": b, "cap": 4, "nested": false, "decode": true, "occupancy": true}));
        }
    }
    // several beatree workers per commit: fill / thin out (7 of every 8 keys deleted) / empty
    // cycles over 1500 keys with 2–4 commit workers (leaves handed over between neighbouring
    // workers when both fall below the merge threshold), page accounting after every commit
    for cc in [2usize, 3, 4] {
        for seed in ["bulk", "wide"] {
            let mut cfg = cfg_small();
            cfg.cc = cc;
            cfg.buckets = 4096;
            let ops = vec![
                json!({"c": [[0, "d78", 1500]]}),
                json!({"c": [[0, "dn", 1500]]}),
                json!({"c": [[0, "wn", 1500]]}),
                json!({"c": [[0, "d78", 1500]]}),
                json!({"c": [[0, "dn", 1500]]}),
            ];
            let mut cse = mk_multiworker_case(seed, &cfg, ops);
            cse["image"] = json!("c19");
            cases.push(cse);
        }
    }
    // … and every schedule of the three leaf-stage workers of the merge-heavy commits (M2*), the
    // branch-stage hand-over (M3*) with the same full page accounting after each schedule
    for h in ["M2del", "M2shrink", "M2wipe"] {
        cases.push(json!({"harness": h, "bound": 1, "pbound": 99, "max_exec": if thorough { 400000 } else { 3000 }, "budget_s": if thorough { 1500 } else { 35 }}));
    }
    for h in ["M3", "M3b"] {
        cases.push(json!({"harness": h, "bound": 1, "pbound": 0, "max_exec": 3000, "budget_s": 35}));
    }
    add_quiet(&mut cases, if thorough { 1 } else { 3 });
    sort_by_bound(&mut cases);
    let mut p = Plan::new(
        cases,
        "histx + imgdec: the structural history family of C16 (including the histories committed through overlays and overlay chains); at every quiescent point the decoder's page accounting must give [1, bump) = in-use ⊎ free-list-tracked in both value files (no leak, no double use), and hash_table_utilization().occupied = number of full buckets in the decoded meta map = number of stored pages reachable from the root (0 for an empty store). Plus every process-crash cut of the explicit crash histories: the same accounting of occupancy on the handle that recovered the image. Plus the prepared-on-overlay family of C12 (a changeset prepared on an uncommitted overlay and committed directly after it, with commits / rollbacks in between) under the same accounting: no page stored in two buckets. Plus commits executed by several value-tree workers: fill / thin out (7 of 8 keys deleted) / empty cycles over 1500 keys with 2, 3 and 4 commit workers, and every schedule of the three leaf-stage workers of three merge-heavy commits plus the branch-stage hand-over (harnesses M2del, M2shrink, M2wipe, M3, M3b of C13), each followed by the full page accounting.",
    );
    p.budget_s = if thorough { 1500 } else { 55 };
    p
}

// ---------------------------------------------------------------------------------------------
// Crash / fault plans

fn cfg_crash() -> Cfg {
    let mut c = cfg_small();
    c.buckets = 64;
    c.rollback = true;
    c.log_len = 2;
    c.seg_size = 8192;
    c
}

fn hist(seed: &str, universe: Vec<&str>, cfg: &Cfg, ops: Vec<Value>) -> Value {
    json!({"seed": seed, "universe": universe, "cfg": cfg.to_json(), "audit": "all", "ops": ops, "final_reopen": false})
}

/// The history set H3: (history, index of the traced operation).
pub fn crash_histories(thorough: bool) -> Vec<(Value, usize, u64)> {
    let cfg = cfg_crash();
    let mut out: Vec<(Value, usize, u64)> = vec![];
    // (a) deviation-bounded commit histories, traced op = the last commit
    let a = acts(&[("w", Some(1)), ("w", Some(1333)), ("d", None)]);
    for (seed, uni) in [("empty", vec!["U4"]), ("leaf", vec!["seed:0,2,5", "CL0:0-1"]), ("cl12x20", vec!["CL12:18-22"])] {
        let b = if thorough { 2 } else { 1 };
        let d = if thorough { 3 } else { 2 };
        let cases = enum_commit_histories(d, 4, b, &a, &|ops, b| json!({"ops": ops, "b": b}));
        for c in cases {
            let ops = c["ops"].as_array().unwrap().clone();
            let n = ops.len();
            out.push((hist(seed, uni.clone(), &cfg, ops), n - 1, c["b"].as_u64().unwrap()));
        }
    }
    // (b) explicit multi-step histories: rollback, reopen, overlay commit, pruning, overflow
    let w = |k: u64, s: u64| json!([k, "w", s]);
    let del = |k: u64| json!([k, "d"]);
    let c = |items: Vec<Value>| json!({"c": items});
    let u4 = vec!["U4"];
    let ex: Vec<(Vec<Value>, usize)> = vec![
        (vec![c(vec![w(0, 1)]), c(vec![w(1, 1333)]), json!({"rb": 1})], 2),
        (vec![c(vec![w(0, 1)]), c(vec![w(1, 1333)]), c(vec![del(0)]), json!({"rb": 2})], 3),
        (vec![c(vec![w(0, 1)]), c(vec![w(1, 1333), del(0)]), json!({"reopen": {}})], 2),
        (vec![c(vec![w(0, 1)]), json!({"ov": {"id": 0, "on": [], "b": [w(1, 1333), del(0)]}}), json!({"ovc": 0})], 2),
        (vec![c(vec![w(0, 1)]), json!({"ov": {"id": 0, "on": [], "b": [w(1, 1)]}}), json!({"ov": {"id": 1, "on": [0], "b": [w(2, 1333)]}}), json!({"ovc": 0}), json!({"ovc": 1})], 4),
        (vec![c(vec![w(0, 1)]), json!({"rb": 1}), c(vec![w(1, 1)])], 2),
        (vec![c(vec![w(0, 1)]), c(vec![w(1, 1)]), c(vec![w(2, 1)]), c(vec![w(3, 1)])], 3),
        (vec![c(vec![w(0, 1)]), c(vec![w(1, 1)]), c(vec![w(2, 1)]), json!({"rb": 1})], 3),
        (vec![c(vec![w(0, 70000)])], 0),
        (vec![c(vec![w(0, 70000)]), c(vec![del(0), w(1, 1)])], 1),
        (vec![c(vec![w(0, 70000), w(1, 1333)]), json!({"rb": 1})], 1),
        (vec![c(vec![w(0, 1)]), c(vec![w(0, 2)]), json!({"reopen": {}}), json!({"rb": 1})], 3),
        // two records per segment: a rollback whose new end is exactly the last record of the
        // earlier segment file, then a commit on the same handle (the head-segment writer must
        // continue behind that record, not at the start of the file)
        (vec![c(vec![w(0, 1)]), c(vec![w(1, 1)]), c(vec![w(2, 1)]), json!({"rb": 1}), c(vec![w(3, 1)])], 4),
        (vec![c(vec![w(0, 1)]), c(vec![w(1, 1)]), c(vec![w(2, 1)]), c(vec![w(3, 1)]), json!({"rb": 2}), c(vec![w(0, 2)])], 5),
        (vec![c(vec![w(0, 1)]), c(vec![w(1, 1)]), c(vec![w(2, 1)]), json!({"rb": 1}), json!({"rb": 1})], 4),
    ];
    for (ops, t) in ex {
        out.push((hist("empty", u4.clone(), &cfg, ops), t, 3));
    }
    // one record per rollback segment: every commit rolls the log over, pruning unlinks segments
    let mut cfg1 = cfg_crash();
    cfg1.seg_size = 4096;
    let ex1: Vec<(Vec<Value>, usize)> = vec![
        (vec![c(vec![w(0, 1)]), c(vec![w(1, 1)])], 1),
        (vec![c(vec![w(0, 1)]), c(vec![w(1, 1)]), c(vec![w(2, 1333)])], 2),
        (vec![c(vec![w(0, 1)]), c(vec![w(1, 1)]), c(vec![w(2, 1)]), c(vec![del(0)])], 3),
        (vec![c(vec![w(0, 1)]), c(vec![w(1, 1)]), json!({"rb": 1})], 2),
        (vec![c(vec![w(0, 1)]), c(vec![w(1, 1)]), c(vec![w(2, 1)]), json!({"rb": 1})], 3),
        (vec![c(vec![w(0, 1)]), c(vec![w(1, 1)]), c(vec![w(2, 1)]), json!({"rb": 1}), c(vec![w(3, 1)])], 4),
        (vec![c(vec![w(0, 1)]), c(vec![w(1, 1)]), c(vec![w(2, 1)]), json!({"reopen": {}})], 3),
    ];
    for (ops, t) in ex1 {
        out.push((hist("empty", u4.clone(), &cfg1, ops), t, 3));
    }
    // log length 1: rolling back everything that is retained after the older records were pruned
    let mut cfg_l1 = cfg_crash();
    cfg_l1.seg_size = 4096;
    cfg_l1.log_len = 1;
    for (ops, t) in [
        (vec![c(vec![w(0, 1)]), c(vec![w(1, 1)]), json!({"rb": 1})], 2usize),
        (vec![c(vec![w(0, 1)]), c(vec![w(1, 1)]), json!({"rb": 1}), c(vec![w(2, 1)])], 3),
        (vec![c(vec![w(0, 1)]), c(vec![w(1, 1)]), json!({"rb": 1}), json!({"reopen": {}})], 3),
    ] {
        out.push((hist("empty", u4.clone(), &cfg_l1, ops), t, 3));
    }
    // cluster: page elision / un-elision and tombstones under crash
    let cl = vec!["CL12:17-23"];
    let exc: Vec<(Vec<Value>, usize)> = vec![
        (vec![c(vec![del(1)])], 0),
        (vec![c(vec![del(1), del(2)]), c(vec![w(1, 1), w(2, 1)])], 1),
        (vec![c(vec![del(0), del(1), del(2)]), json!({"rb": 1})], 1),
    ];
    for (ops, t) in exc {
        out.push((hist("cl12x20", cl.clone(), &cfg, ops), t, 3));
    }
    // merkle page promoted from elided to stored while only part of it is touched; pages cleared
    // by a delete-only commit (tombstones replayed from the WAL)
    {
        let cl19 = vec!["CL12:17-25"];
        out.push((hist("cl12x19", cl19.clone(), &cfg, vec![c(vec![w(2, 1), w(3, 1)])]), 0, 3));
        out.push((hist("cl12x19", cl19.clone(), &cfg, vec![c(vec![w(2, 1), w(3, 1), w(4, 1)]), c(vec![del(2), del(3), del(4), del(0)])]), 1, 3));
        let pairs = vec!["PAIRS:3"];
        let fill: Vec<Value> = (0..6).map(|i| w(i, 1)).collect();
        out.push((hist("empty", pairs.clone(), &cfg, vec![c(fill.clone()), c(vec![del(0), del(1)])]), 1, 3));
        out.push((hist("empty", pairs.clone(), &cfg, vec![c(fill.clone()), c(vec![del(2), del(3), del(4), del(5)])]), 1, 3));
        out.push((hist("empty", pairs.clone(), &cfg, vec![c(fill.clone()), c(vec![del(0), del(1)]), c(vec![w(0, 2), w(1, 2)])]), 2, 3));
    }
    // a hash table that is exactly full (root + three depth-1 pages in 4 buckets): a commit that
    // empties one page and needs a fresh one must put the new page into the bucket the old one
    // vacates in the same sync; crash cuts replay that from the WAL
    {
        let mut cfg4 = cfg_crash();
        cfg4.buckets = 4;
        let pairs = vec!["PAIRS:6"];
        let mut fill: Vec<Value> = (0..6).map(|i| w(i, 1)).collect();
        fill.extend([6u64, 8, 10].map(|i| w(i, 1)));
        for x in 0..6u64 {
            for y in [7u64, 9, 11] {
                if !thorough && ![(0, 7), (1, 9), (2, 11), (5, 7)].contains(&(x, y)) {
                    continue;
                }
                out.push((hist("empty", pairs.clone(), &cfg4, vec![c(fill.clone()), c(vec![del(x), w(y, 1)])]), 1, 3));
            }
        }
        out.push((hist("empty", pairs.clone(), &cfg4, vec![c(fill.clone()), c(vec![del(0), del(3), w(7, 1), w(11, 1)])]), 1, 3));
        out.push((hist("empty", pairs.clone(), &cfg4, vec![c(fill.clone()), c(vec![del(0), del(1), w(9, 1)]), c(vec![w(0, 2), del(2), del(3), w(1, 2)])]), 2, 3));
    }
    if thorough {
        // every earlier op of the explicit histories as target too is covered by (a) prefixes;
        // add two-worker variants
        let mut cfg2 = cfg_crash();
        cfg2.cc = 3;
        let cases = enum_commit_histories(2, 4, 2, &a, &|ops, b| json!({"ops": ops, "b": b}));
        for cse in cases {
            let ops = cse["ops"].as_array().unwrap().clone();
            let n = ops.len();
            out.push((hist("leaf", vec!["seed:0,2,5", "CL0:0-1"], &cfg2, ops), n - 1, cse["b"].as_u64().unwrap()));
        }
    }
    out
}


/// The first two layers of the root merkle page: a first commit writes any non-empty subset of four
/// keys with the leading bits 00, 01, 10, 11; the traced second commit toggles any non-empty subset
/// (present keys deleted, absent ones written) — sub-tries of the root page emptied while their
/// sibling is empty, filled or being filled in the same commit (the page diff logged to the WAL
/// must carry every zeroed node). Thorough: also eight keys (three leading bits), first commit a
/// pair, second commit toggling ≤2 keys.
pub fn root_layer_histories(thorough: bool) -> Vec<(Value, usize, u64)> {
    let cfg = cfg_crash();
    let mut out = vec![];
    let w = |k: u64, s: u64| json!([k, "w", s]);
    let del = |k: u64| json!([k, "d"]);
    for first in 1u32..16 {
        for toggle in 1u32..16 {
            let c1: Vec<Value> = (0..4).filter(|i| first >> i & 1 == 1).map(|i| w(i, 1)).collect();
            let c2: Vec<Value> = (0..4).filter(|i| toggle >> i & 1 == 1).map(|i| if first >> i & 1 == 1 { del(i) } else { w(i, 2) }).collect();
            out.push((hist("empty", vec!["Q4"], &cfg, vec![json!({"c": c1}), json!({"c": c2})]), 1, 3));
        }
    }
    // the last layer of the root page (node slots 62..125): two keys sharing five leading bits
    // plus one key far away; the traced commit rewrites / deletes one of the pair
    for pair in 0u64..32 {
        for delete in [false, true] {
            let (a, b, far) = (2 * pair, 2 * pair + 1, (2 * pair + 33) % 64);
            let c2 = if delete { vec![del(b)] } else { vec![w(b, 2)] };
            out.push((hist("empty", vec!["Q64"], &cfg, vec![json!({"c": [w(a, 1), w(b, 1), w(far, 1)]}), json!({"c": c2})]), 1, 3));
        }
    }
    // every part of a stored CHILD page: 64 keys below one depth-1 page (all last-layer slots are
    // leaves); the traced commit rewrites / deletes the first, second, middle and last ones
    for i in [0u64, 1, 31, 32, 62, 63] {
        for delete in [false, true] {
            let c2 = if delete { vec![del(i)] } else { vec![w(i, 2)] };
            out.push((hist("full1", vec!["F64"], &cfg, vec![json!({"c": c2})]), 0, 3));
        }
    }
    if thorough {
        for a in 0u64..8 {
            for b in a + 1..8 {
                for x in 0u64..8 {
                    for y in x..8 {
                        let present = |k: u64| k == a || k == b;
                        let mut c2 = vec![if present(x) { del(x) } else { w(x, 2) }];
                        if y != x {
                            c2.push(if present(y) { del(y) } else { w(y, 2) });
                        }
                        out.push((hist("empty", vec!["Q8"], &cfg, vec![json!({"c": [w(a, 1), w(b, 1)]}), json!({"c": c2})]), 1, 3));
                    }
                }
            }
        }
    }
    out
}


/// A commit whose WAL blob ends exactly at a page boundary (its END tag is the last byte of the
/// 12 288-byte file: 58 page records with 266 changed nodes): 57 groups of four keys (one depth-1
/// merkle page each) written in full, then a commit rewriting all four keys of 9 groups, two keys of
/// one group and one key of the remaining 47. The geometry was found by measuring (`mc walsize`);
/// the run reports the goal `wal-end-tag-at-page-boundary` when it is still hit.
pub fn wal_geometry_histories() -> Vec<(Value, usize, u64)> {
    let mut cfg = cfg_crash();
    cfg.buckets = 256;
    let k = 57u64;
    let full: Vec<Value> = (0..k).flat_map(|i| (0..4u64).map(move |s| json!([i * 4 + s, "w", 1]))).collect();
    let mut b: Vec<Value> = vec![];
    for i in 0..k {
        let keys: &[u64] = if i < 9 { &[0, 1, 2, 3] } else if i == 9 { &[0, 1] } else { &[0] };
        for s in keys {
            b.push(json!([i * 4 + s, "w", 2]));
        }
    }
    vec![(hist("empty", vec!["QUADS:57"], &cfg, vec![json!({"c": full}), json!({"c": b})]), 1, 3)]
}

pub fn crash_plan(prop: &str, tier: &str) -> Plan {
    let thorough = tier == "thorough";
    let hs = crash_histories(thorough);
    let mode = match prop {
        "C03" => "c03",
        "C04" => "c04",
        "C17" => "c17",
        "C14" => return fault_plan(thorough),
        _ => panic!("no crash plan for {prop}"),
    };
    let mut hs = hs;
    let n_general = hs.len();
    // (the whole root-layer family in C03 — it is about WAL replay after a process crash; a 45-
    // history part of it in the quick tiers of C04 / C17, whose per-trace enumerations are larger)
    let rl = root_layer_histories(thorough);
    if prop == "C03" || thorough {
        hs.extend(rl);
    } else {
        hs.extend(rl.into_iter().filter(|(h, _, _)| {
            let first = h["ops"][0]["c"].as_array().map_or(0, |a| a.iter().fold(0u64, |m, x| m | 1u64 << x[0].as_u64().unwrap()));
            let q4 = h["universe"][0] == "Q4";
            q4 && matches!(first, 0b0011 | 0b1100 | 0b0101)
        }));
    }
    if prop == "C03" || (prop == "C04" && thorough) {
        hs.extend(wal_geometry_histories());
    }
    let n_root_layer = hs.len() - n_general;
    if prop == "C17" {
        // the monitor only needs the trace (no image enumeration), so it can afford operations with
        // hundreds of page writes: a free list spanning two list pages (1280 pages released by
        // deleting the 5 MiB value of seed `ovf`; a list page holds 1022 entries), then commits
        // whose allocations cross from the head list page into the next one, release pages of
        // their own, or run the list dry
        let cfg = cfg_crash();
        let w = |k: u64, s: u64| json!([k, "w", s]);
        let del = |k: u64| json!([k, "d"]);
        let c = |items: Vec<Value>| json!({"c": items});
        let uni = vec!["seed:0", "CL0:0-4"];
        let big = 1_300_000u64; // ≈ 318 pages
        let ex: Vec<(Vec<Value>, usize)> = vec![
            (vec![c(vec![del(0)])], 0),
            (vec![c(vec![del(0)]), c(vec![w(1, big)])], 1),
            (vec![c(vec![del(0)]), c(vec![w(1, big)]), c(vec![w(2, 70000), del(1)])], 2),
            (vec![c(vec![del(0)]), c(vec![w(1, big), w(2, big)]), c(vec![w(3, big), del(1)])], 2),
            (vec![c(vec![del(0)]), c(vec![w(1, 70000)]), c(vec![w(2, big)])], 2),
            (vec![c(vec![del(0)]), c(vec![w(1, big), w(2, big), w(3, big)]), c(vec![w(4, big), del(2)])], 2),
            (vec![c(vec![del(0)]), json!({"reopen": {}}), c(vec![w(1, big)])], 2),
            // the tree emptied, refilled from the free list (a sync that allocates and frees
            // nothing), restarted, and written again: the list read back at the restart must not
            // hand out the pages of the refill
            (vec![c(vec![del(0)]), c(vec![w(1, big)]), json!({"reopen": {}}), c(vec![w(2, big)])], 3),
            (vec![c(vec![del(0)]), c(vec![w(1, 70000)]), json!({"reopen": {}}), c(vec![w(2, big), w(3, 70000)])], 3),
            (vec![c(vec![del(0)]), c(vec![w(1, 5)]), json!({"reopen": {}}), c(vec![w(2, 70000)])], 3),
        ];
        for (ops, t) in ex {
            hs.push((hist("ovf", uni.clone(), &cfg, ops), t, 3));
        }
    }
    let _ = n_root_layer;
    // poisoned page-pool buffers (verif knob: "the contents of the page are undefined" — whatever
    // lands in the unused parts of WAL, meta, leaf, branch, free-list and hash-table pages must
    // not matter to recovery): the explicit histories once more (thorough: every general history)
    let n_before_poison = hs.len();
    if prop == "C03" || (prop == "C04" && thorough) {
        let poisoned: Vec<(Value, usize, u64)> = hs[..n_general]
            .iter()
            .filter(|(_, _, b)| thorough || *b >= 3)
            .map(|(h, t, b)| {
                let mut h = h.clone();
                h["cfg"]["pool_poison"] = json!(0xA5);
                (h, *t, *b)
            })
            .collect();
        hs.extend(poisoned);
    }
    let mut cases: Vec<Value> = hs
        .into_iter()
        .enumerate()
        .flat_map(|(i, (h, t, b))| {
            // (the root-layer family under the lazy task schedule only in the thorough tier)
            let root_layer = i >= n_general && i < n_general + n_root_layer;
            // every traced operation twice: with the background tasks of the sync pipeline running
            // as they come, and with each of them held back until somebody waits for it
            // (the WAL-geometry history writes 58 hash-table pages after the meta swap: every instant,
            // but no nested cuts of its 58-page recovery and in-flight subsets capped at 2)
            let big = h["universe"][0].as_str().map_or(false, |u| u.starts_with("QUADS:"));
            // thorough tier, general histories: four more schedules — exactly one part of the sync
            // pipeline (beatree tasks / bitbox tasks / rollback tasks / the fsyncer threads) held
            // back while the others run as they come (lazy_pools = 1, 2, 4, 8; 15 = all of them)
            let general = i < n_general;
            [(false, 15u8), (true, 15), (true, 1), (true, 2), (true, 4), (true, 8)]
                .into_iter()
                .filter(move |(lazy, pools)| !(*lazy && (root_layer || big || i >= n_before_poison) && !thorough) && (*pools == 15 || (thorough && general)))
                .map(move |(lazy, pools)| json!({"mode": mode, "hist": h, "target": t, "bound": b, "lazy": lazy, "lazy_pools": pools, "cap": if big { 2 } else if thorough { 8 } else { 5 }, "nested": !big && (thorough || !lazy) && pools == 15, "max_per_instant": if big { 4 } else if thorough { 96 } else { 40 }, "stride": if big && !thorough { 40 } else if big { 3 } else { 1 }}))
        })
        .collect();
    if prop == "C03" {
        cases.extend(kill_cases(thorough));
    }
    if prop == "C04" {
        // the order monitor alone (one traced execution per case, no image) over the THOROUGH
        // history set and the whole root-layer family, both task schedules — first in the plan
        let mut hs2 = crash_histories(true);
        hs2.extend(wal_geometry_histories());
        let n_explicit = hs2.len();
        hs2.extend(root_layer_histories(true));
        for (i, (h, t, _b)) in hs2.into_iter().enumerate() {
            // every subset of {beatree tasks, bitbox tasks, rollback tasks, fsyncer threads} held
            // back (0 = none: the free run; 15 = all): 16 task schedules per traced operation in
            // the thorough tier, 6 in the quick tier (none, all, each single part)
            // (quick tier: the single parts only for the quick tier's own history set and the
            // WAL-geometry history; none and all for the rest)
            let singles = i < n_explicit && h["universe"][0].as_str().map_or(false, |u| u.starts_with("QUADS:"));
            let masks: Vec<u8> = if thorough { (0..16).collect() } else if singles { vec![0, 15, 1, 2, 4, 8] } else { vec![0, 15] };
            for m in masks {
                cases.push(json!({"mode": "c04o", "hist": h, "target": t, "bound": 0, "lazy": m != 0, "lazy_pools": if m == 0 { 15 } else { m }}));
            }
        }
    }
    if prop == "C04" && !thorough {
        for (h, t, _b) in crash_histories(false) {
            for m in [1u8, 2, 4, 8] {
                cases.push(json!({"mode": "c04o", "hist": h, "target": t, "bound": 0, "lazy": true, "lazy_pools": m}));
            }
        }
    }
    sort_by_bound(&mut cases);
    let rule = match prop {
        "C03" => "crashx: for every history of the set H3 (all histories of ≤D commits with ≤B key actions {write 1 B, write 1333 B, delete} over 4 colliding keys from seeds {empty, leaf, 20-key cluster below a depth-2 merkle page}, plus explicit rollback / reopen / overlay-commit / log-pruning / overflow-value histories; rollback enabled, log length 2, 8 KiB rollback segments, 64-bucket hash table) the last operation is executed on the real store twice — background tasks of the sync pipeline running as they come, and each of them (spawn_task on the *-sync pools, Fsyncer work) held back until some thread waits for it; the explicit histories (thorough: all general histories) once more with the page pool handing out buffers full of 0xA5, so that the unused parts of every page written carry garbage (thorough tier, general histories: four more schedules, each holding back exactly one part of the pipeline — beatree tasks, bitbox tasks, rollback tasks, fsyncer threads — while the rest runs as it comes) — with every mutating file operation recorded (submission stamp, stamp at which the issuing code learnt of its completion); for EVERY instant of the trace and EVERY subset of the operations in flight at that instant (capped: beyond `cap` in-flight operations only none/all/each single/each single missing/each prefix) the directory image is materialised and reopened with the real Nomt::open; the reopened store must show exactly the old or exactly the new state (values, root, proofs, sync_seqn from the same side; new whenever the operation had returned), decode to that state (independent decoder) and accept a follow-up commit and rollback that behave as in the model; the recovery of every image is itself recorded and cut at every instant (nested once). REAL PROCESS DEATH (mode kill): for the explicit histories (thorough: all of H3, both task schedules) the traced operation is re-executed in a child process that aborts (SIGABRT, no unwinding) right before its k-th mutating or syncing file operation, for EVERY k of the reference trace; the directory the dead process leaves behind must (i) equal, byte for byte, the dead process's own pre-image plus every operation its own I/O log (handed over right before the abort) shows as performed plus some subset of the operations then in flight — the conformance check of the crash model used by the cut enumeration against a real kill (goal `real-crash-state=pre+performed+subset-of-in-flight`; a mismatch is printed as a NOTE and counted, it is a statement about the model, not about the property), (ii) open at once with the real Nomt::open (the kernel released the lock), (iii) show exactly the old or the new state (new if the call had returned), and (iv) pass the same inspection as a synthesised image, including every cut of its recovery. evaluations = traced operations; transitions = images opened + processes killed.",
        "C04" => "crashx: the history set and traces of C03 under POWER-LOSS semantics: an operation is durable at instant t iff a sync of its file (its directory for create/unlink) was submitted after the issuing code had received its completion and completed before t; for every instant, every combination (capped per instant, reported) of: per file, every prefix in issue order of the non-durable size-changing operations (set_len, append — the last kept append also cut at every page boundary), every subset (capped) of the non-durable in-place page writes, at most one write torn at the 2 KiB boundary either way; per directory every prefix of non-durable creates/unlinks. Each image is reopened with the real Nomt::open and audited as in C03 (exactly old or exactly new; new once the operation returned); nested once into recovery. ORDER MONITOR (the property's 'equivalently' clause, decided on the ordered trace itself with no cap and no image, for every traced operation of the thorough history set, the root-layer family and the WAL-geometry history under EVERY subset of {beatree-sync tasks, bitbox-sync tasks, rollback-sync tasks, fsyncer threads} held back until waited for while the rest runs as it comes (16 task schedules per traced operation in the thorough tier; quick tier: none and all for every history, each single part for the quick tier's own history set and the WAL-geometry history) — cases of bound 0, run first): R1 every mutating operation issued before the meta write is covered by a sync of its file (directory for create/unlink) that was submitted after the issuing code had received its completion and that completed before the meta write was issued; R2 no other file is modified, truncated or unlinked between the meta write and the completion of the meta fsync; R3 (also in recovery) the WAL is truncated only after every earlier hash-table write is covered by a completed fsync. transitions = images opened + operations checked by the monitor.",
        _ => "crashx monitor: for every traced operation of the history set H3, every mutating file operation submitted before the meta fsync completes is checked against the live regions of the pre-image as decoded by the independent decoder (leaves, overflow pages, branch nodes, free-list pages of both value files; the whole hash-table file; segments / byte ranges holding live rollback records; the meta page): no write into a live ln/bbn page (only free pages or pages at/after the bump), no ht write at all, no truncation below the bump or below the end of live rollback records, no unlink of a segment holding live records; the WAL is exempt (redo log). The history set is H3 plus operations with hundreds of page writes on a free list that spans two list pages (allocations crossing from the head list page into the next, the list running dry, pages released and allocated in one commit; the tree emptied, refilled from the free list by a sync that frees nothing, restarted and written again). transitions = operations checked.",
    };
    let mut p = Plan::new(cases, rule);
    p.level = if prop == "C17" { "model_checking" } else { "fault_enumeration" };
    p.budget_s = if thorough { 1700 } else { 55 };
    p.assumptions = vec![
        "two task schedules per traced operation (eager, and every sync-pipeline task as late as possible); a page write counts as complete only once its completion was received by the submitter, so 'write still in flight at the fsync / at the meta swap' does not depend on how fast the I/O pool happened to be; other pool-thread interleavings are not enumerated here".into(),
        "file-system model: process crash = completed syscalls persist, in-flight ones are atomic per call; power loss = as stated in the rule; the seam self-check (pre-image + recorded events = real directory) runs on every traced operation".into(),
    ];
    p
}

/// Real process death at every file operation of the traced operation (see crashx::run_kill).
pub fn kill_cases(thorough: bool) -> Vec<Value> {
    let mut cases = vec![];
    for (h, t, b) in crash_histories(thorough) {
        if !thorough && b != 3 {
            continue;
        }
        cases.push(json!({"mode": "kill", "hist": h, "target": t, "bound": b, "lazy": false, "nested": true}));
        if thorough {
            cases.push(json!({"mode": "kill", "hist": h, "target": t, "bound": b, "lazy": true, "nested": false}));
        }
    }
    cases
}

fn fault_plan(thorough: bool) -> Plan {
    let hs = crash_histories(false);
    let mut cases: Vec<Value> = vec![];
    for (h, t, b) in hs {
        // quick: the explicit histories and the bound-≤1 family; thorough: everything, plus 3 workers
        if !thorough && b == 1 && h["seed"] != "empty" {
            continue;
        }
        cases.push(json!({"mode": "c14", "hist": h, "target": t, "bound": b}));
        // the same faults with every sync-pipeline task held back until it is joined
        if b != 1 || thorough {
            cases.push(json!({"mode": "c14", "hist": h, "target": t, "bound": b, "lazy": true}));
        }
    }
    if thorough {
        for (h, t, b) in crash_histories(true) {
            if h["cfg"]["cc"] == 3 && b <= 1 {
                cases.push(json!({"mode": "c14", "hist": h, "target": t, "bound": b}));
            }
        }
    }
    // a rollback segment that is by far the longest file of the directory (60 one-record commits into
    // one 64 MiB segment, a 16-bucket table, a one-leaf tree): a file-size limit can then fall inside
    // the segment's next record — its header, payload or padding — without touching any other file
    {
        let mut cfg = cfg_crash();
        cfg.buckets = 16;
        cfg.seg_size = 0;
        cfg.log_len = 100;
        let mut ops: Vec<Value> = (0..60).map(|i| json!({"c": [[i % 2, "w", 1 + (i % 3)]]})).collect();
        ops.push(json!({"c": [[2, "w", 1], [0, "d"]]}));
        let n = ops.len();
        let mut h = hist("empty", vec!["U4"], &cfg, ops);
        h["quiet"] = json!(true);
        cases.push(json!({"mode": "c14", "hist": h, "target": n - 1, "bound": 3, "cqe": false}));
    }
    // bucket exhaustion: tiny tables; a batch of k key pairs needs k+1 merkle pages (the root page
    // and one depth-1 page per pair); k+1 ranges from "just fits" to 3 more than the table holds
    for buckets in [4u32, 5, 7, 8] {
        for extra in 0..=3u32 {
            let k = buckets - 1 + extra;
            let mut cfg = cfg_crash();
            cfg.buckets = buckets;
            let uni = format!("PAIRS:{k}");
            let batch: Vec<Value> = (0..2 * k).map(|i| json!([i, "w", 1])).collect();
            // all at once, and in two commits (second one exhausts a partly filled table)
            let h = hist("empty", vec![&uni], &cfg, vec![json!({"c": batch.clone()})]);
            cases.push(json!({"mode": "c14x", "hist": h, "target": 0, "bound": 2}));
            let half = (batch.len() / 2) & !1;
            let h2 = hist("empty", vec![&uni], &cfg, vec![json!({"c": batch[..half].to_vec()}), json!({"c": batch[half..].to_vec()})]);
            cases.push(json!({"mode": "c14x", "hist": h2, "target": 1, "bound": 2}));
        }
    }
    sort_by_bound(&mut cases);
    let mut p = Plan::new(
        cases,
        "crashx fault enumeration: for every traced operation of the history set H3 (commits, overlay commits, rollbacks, reopens; see C03) and EVERY mutating or syncing file operation it performs — identified by (file, kind, ordinal) from a fault-free reference run — the history is re-executed and that operation is made to fail with EIO, (a) once and (b) persistently from then on; page writes through the I/O pool fail both at submission (not performed) and at completion (performed, reported failed); and for every page write the raw completion-queue entry is replaced (hook in the io_uring worker, before the result is interpreted) by (c) -EIO while the worker thread's errno holds a stale EINTR — must be reported like any failed write, (d) a short count once — the write must be repeated and the call succeed with exactly the new state after a reopen, (e) a short count every time — the call must end with an error, never hang; and (f) the whole process runs the operation under a file-size limit (RLIMIT_FSIZE, SIGXFSZ ignored), one limit right below and one at the start of every distinct end offset of the reference trace: the kernel refuses or cuts short every write, append and growth beyond it (synchronous write(2) calls and io_uring alike) — an error must be reported like any other, a success must be real (a follow-up commit and a reopen with the limit lifted work on the new state); one history makes the rollback segment by far the longest file so that the limit can fall inside its next record alone. Oracle per injected run: the call returns an error (success with the failure inside the call = swallowed failure; panic; hang detected by a per-case watchdog with resume), the handle is poisoned and refuses a further commit, and after drop a fault-free reopen shows exactly the pre-state (or the post-state, only if the meta fsync had completed). Bucket exhaustion: tables of 4/5/7/8 buckets with cluster batches needing more pages than fit: the commit must return an error (not hang), poison, and leave the pre-state. transitions = injected executions.",
    );
    p.level = "fault_enumeration";
    p.budget_s = if thorough { 1700 } else { 55 };
    p.isolate = true;
    p.case_timeout_s = 30;
    p.timeout_is_violation = true;
    p.assumptions = vec!["failures are injected at the I/O seam (before the syscall / at I/O-pool submission or completion); read failures are not injected".into()];
    p
}

/// Cache-pressure family: twice as many leaves as the leaf cache holds, every seed key read back
/// after every commit (so the cache is over budget when the next commit starts), commits that
/// rewrite leaves in place: the page freed by one commit is re-used by the next one while the cache
/// still holds the leaf that used to live there.

/// Right after a cold reopen (nothing read back) ONE commit whose batch mixes reads, rewrites and
/// deletes of keys in the first of two value leaves with inserts of new keys below, between and
/// above everything on disk (their merkle terminals are terminators of the stored root page, so the
/// session's seek does not fetch the value leaf they go to): the value-tree leaf stage then finds
/// some of its leaves cached (by the session's reads) and has to fetch the others. Rollback off
/// (the reverse-delta worker would fetch the prior values, and with them every leaf), leaf cache
/// 0 and 4 MiB, 1 and 3 workers, and a forgetful leaf cache (lookups of leaves with an odd / even
/// page number always miss; every second lookup misses).
pub fn cold_leaf_insert_family(audit: &str, b: usize) -> Vec<Value> {
    let a = acts(&[("r", None), ("w", Some(5)), ("w", Some(1300)), ("d", None)]);
    let mut cases = vec![];
    for (leaf_cache, cc, amnesia) in [(0usize, 1usize, 0u8), (4, 1, 1), (4, 1, 2), (0, 3, 3)] {
        let mut cfg = cfg_small();
        cfg.leaf_cache = leaf_cache;
        cfg.cc = cc;
        cfg.rollback = false;
        cfg.leaf_amnesia = amnesia;
        let mut cs = enum_commit_histories(1, 7, b, &a, &mk_case("leaf", vec!["seed:0,1,4,5", "SUB:U1:0,2,5"], &cfg, audit, true));
        for c in cs.iter_mut() {
            let mut ops = vec![json!({"reopen": {"cold": true}})];
            ops.extend(c["ops"].as_array().unwrap().iter().cloned());
            c["ops"] = Value::Array(ops);
            c["quiet"] = json!(true);
        }
        cases.extend(cs);
    }
    cases
}

pub fn cache_pressure_family(audit: &str, thorough: bool) -> Vec<Value> {
    let mut cfg = cfg_small();
    cfg.leaf_cache = 1;
    cfg.buckets = 4096;
    let a = acts(&[("w", Some(1)), ("d", None), ("w", Some(1300))]);
    // universe: two adjacent keys in the middle of the tree (shrinking their leaf merges it with
    // a neighbour, rewriting it again lands in a page that was just released) and keys far away
    let uni = if thorough { "seed:1,400,401,1493,1496,1499" } else { "seed:400,401,1496,1499" };
    let n = if thorough { 6 } else { 4 };
    let mut cs = enum_commit_histories(if thorough { 4 } else { 3 }, n, if thorough { 3 } else { 2 }, &a, &mk_case("wide", vec![uni], &cfg, audit, true));
    for c in cs.iter_mut() {
        c["audit_seed_keys"] = json!(true);
    }
    cs
}

/// Bulk-shrink family: a branch node built with stopped prefix compression; one commit deletes a
/// long run of the clustered keys (macro action = one deviation) and rewrites one far key in
/// place. Every key of the seed is audited.
pub fn pfx_family(audit: &str) -> Vec<Value> {
    let cfg = cfg_small();
    let mut cases = vec![];
    for start in [0u64, 7, 50, 150] {
        for n in [100u64, 200, 300, 400] {
            if start + n > 450 {
                continue;
            }
            let mut batches: Vec<Vec<Value>> = vec![vec![json!([start, "dn", n])]];
            for far in [450u64, 451, 452] {
                for size in [1000u64, 1] {
                    batches.push(vec![json!([start, "dn", n]), json!([far, "w", size])]);
                }
            }
            for b in batches {
                let nb = b.len();
                let mut c = json!({"bound": nb, "seed": "pfx", "universe": ["seed:all"], "cfg": cfg.to_json(), "audit": audit, "ops": [{"c": b}, {"c": [[451, "w", 7]]}], "final_reopen": true});
                c["audit_seed_keys"] = json!(true);
                cases.push(c);
            }
        }
    }
    cases
}
