//! Per-property exploration plans for the history engine: which seed states, universes, alphabets
//! and bounds are enumerated in the quick and thorough tiers.

use crate::driver::Cfg;
use crate::engine::Plan;
use crate::histx::{enum_commit_histories, sort_by_bound, with_control_everywhere};
use serde_json::{json, Value};

fn acts(list: &[(&str, Option<usize>)]) -> Vec<Value> {
    list.iter()
        .map(|(c, s)| match s {
            Some(s) => json!([c, s]),
            None => json!([c]),
        })
        .collect()
}

fn cfg_small() -> Cfg {
    Cfg::default()
}

fn mk_case(
    seed: &str,
    universe: Vec<&str>,
    cfg: &Cfg,
    audit: &str,
    final_reopen: bool,
) -> impl Fn(Vec<Value>, usize) -> Value {
    let seed = seed.to_string();
    let universe: Vec<String> = universe.iter().map(|s| s.to_string()).collect();
    let cfg = cfg.to_json();
    let audit = audit.to_string();
    move |ops, b| json!({"bound": b, "seed": seed, "universe": universe, "cfg": cfg, "audit": audit, "ops": ops, "final_reopen": final_reopen})
}

pub fn hist_plan(prop: &str, tier: &str) -> Plan {
    let thorough = tier == "thorough";
    match prop {
        "C01" => plan_c01(thorough),
        "C02" => plan_c02(thorough),
        "C16" => plan_c16(thorough),
        "C19" => plan_c19(thorough),
        _ => panic!("no history plan for {prop}"),
    }
}

// Value-size classes straddling the in-leaf / overflow / pointer-page boundaries.
const SIZES_FULL: [usize; 8] = [0, 1, 1332, 1333, 5000, 61380, 61381, 70000];

fn plan_c01(thorough: bool) -> Plan {
    let mut cases = vec![];
    let cfg = cfg_small();
    // (a) all histories of D commits with ≤ B key actions over U1, from the empty store
    let mut a_full: Vec<(&str, Option<usize>)> = vec![("r", None), ("d", None), ("rd", None)];
    for s in SIZES_FULL.iter() {
        a_full.push(("w", Some(*s)));
    }
    a_full.push(("rw", Some(1)));
    a_full.push(("rw", Some(1333)));
    let a_full = acts(&a_full);
    let (d, b) = if thorough { (3, 3) } else { (2, 2) };
    cases.extend(enum_commit_histories(d, 6, b, &a_full, &mk_case("empty", vec!["U1"], &cfg, "values", false)));
    // (b) all single batches over four keys with a reduced alphabet, then one follow-up batch
    let a_small = acts(&[("w", Some(1)), ("w", Some(1333)), ("d", None), ("rw", Some(40))]);
    cases.extend(enum_commit_histories(1, 4, 4, &a_small, &mk_case("empty", vec!["U4"], &cfg, "values", false)));
    // (c) structural seeds: actions land inside the hard structure
    let a_seed = acts(&[
        ("w", Some(1300)),
        ("w", Some(1)),
        ("w", Some(1333)),
        ("d", None),
        ("rw", Some(1300)),
        ("w", Some(70000)),
    ]);
    let (d, b) = if thorough { (3, 3) } else { (2, 2) };
    cases.extend(enum_commit_histories(
        d,
        6,
        b,
        &a_seed,
        &mk_case("leaf", vec!["seed:0,2,3,5", "U4"][..1].to_vec().into_iter().chain(["CL0:0-2"]).collect(), &cfg, "values", false),
    ));
    let a_br = acts(&[("w", Some(1300)), ("d", None), ("w", Some(1333)), ("w", Some(1))]);
    cases.extend(enum_commit_histories(
        2,
        6,
        if thorough { 3 } else { 2 },
        &a_br,
        &mk_case("branch", vec!["seed:0,1,299,300,598,599"], &cfg, "values", false),
    ));
    cases.extend(enum_commit_histories(
        2,
        4,
        2,
        &a_br,
        &mk_case("bulk", vec!["seed:0,700,1499", "CL0:0-1"], &cfg, "values", false),
    ));
    let a_ovf = acts(&[("w", Some(1)), ("d", None), ("w", Some(70000)), ("w", Some(5000))]);
    cases.extend(enum_commit_histories(
        2,
        2,
        2,
        &a_ovf,
        &mk_case("ovf", vec!["seed:0", "CL0:0-1"], &cfg, "values", false),
    ));
    // (d) the same with a reopen inserted at every position (control symbol), reduced alphabet
    let base = enum_commit_histories(2, 4, 2, &a_small, &mk_case("leaf", vec!["seed:0,1,4,5"], &cfg, "values", false));
    cases.extend(with_control_everywhere(&base, &json!({"reopen": {}})));
    // (e) several commit workers
    let mut cfg3 = cfg_small();
    cfg3.cc = 3;
    cases.extend(enum_commit_histories(2, 6, if thorough { 3 } else { 2 }, &a_br, &mk_case("branch", vec!["seed:0,1,299,300,598,599"], &cfg3, "values", false)));
    sort_by_bound(&mut cases);
    let mut p = Plan::new(
        cases,
        "histx: every history of D commits whose batches deviate from the empty batch in at most B key actions (bound = number of deviations), over colliding key universes, from seed states {empty, leaf(6x1300B), branch(600 keys sharing 30 bytes), bulk(1500 keys), ovf(5MiB value)}; action alphabet = read, delete, read-then-delete, write of sizes {0,1,1332,1333,5000,61380,61381,70000}, read-then-write; reopen inserted at every position for a sub-family; after every commit Nomt::read and Session::read of every universe key are compared with a BTreeMap model. Non-trivial = at least one write was committed; distinct = distinct (case, final-state digest).",
    );
    p.budget_s = if thorough { 1500 } else { 40 };
    p.assumptions = vec![
        "values are compared through Nomt::read and Session::read only (C01 says nothing about roots)".into(),
        "commit_concurrency 1 and 3; other options at small fixed values (see C13 for the option space)".into(),
    ];
    p
}

fn plan_c02(thorough: bool) -> Plan {
    let mut cases = vec![];
    let cfg = cfg_small();
    let a = acts(&[("w", Some(1)), ("d", None), ("w", Some(2))]);
    // geometry family: 14 keys diverging at depths around the 6-bit page boundaries
    cases.extend(enum_commit_histories(
        if thorough { 3 } else { 2 },
        14,
        if thorough { 3 } else { 2 },
        &a,
        &mk_case("empty", vec!["U2"], &cfg, "root", true),
    ));
    // elision threshold from both sides, below a depth-2 page and below a depth-3 page
    for p in [12usize, 18] {
        for n in [18u32, 19, 20, 21, 22] {
            let seed = format!("cl{p}x{n}");
            let uni = format!("CL{p}:{}-{}", n.saturating_sub(2), n + 2);
            let uni0 = format!("CL{p}:0-1");
            for cc in if thorough { vec![1usize, 2, 4] } else { vec![1usize] } {
                let mut c = cfg_small();
                c.cc = cc;
                cases.extend(enum_commit_histories(
                    2,
                    5,
                    if thorough { 3 } else { 2 },
                    &a,
                    &mk_case(&seed, vec![&uni, &uni0], &c, "root", true),
                ));
            }
        }
    }
    // worker counts over keys spread over several root-child ranges
    for cc in if thorough { vec![2usize, 3, 4, 64] } else { vec![3usize] } {
        let mut c = cfg_small();
        c.cc = cc;
        cases.extend(enum_commit_histories(2, 14, 2, &a, &mk_case("empty", vec!["U2"], &c, "root", true)));
    }
    sort_by_bound(&mut cases);
    let mut p = Plan::new(
        cases,
        "histx: every history of D commits with at most B key actions {insert, delete, overwrite} over (i) a 14-key family diverging at bits {0,1,5,6,7,11,12,13,17,18,127,254,255} and (ii) clusters of 18..22 keys below one depth-2 and one depth-3 merkle page (page-elision threshold from both sides), for 1..64 commit workers; FinishedSession::root, Nomt::root after each commit and after a final reopen are compared with an independent from-scratch recursive trie over the model's key-value set. Non-trivial = at least one write committed.",
    );
    p.budget_s = if thorough { 1500 } else { 40 };
    p.assumptions = vec!["collision resistance of the hasher (equal roots ⇔ equal tries)".into()];
    p
}

fn set_all(cases: &mut Vec<Value>, key: &str, v: Value) {
    for c in cases.iter_mut() {
        c[key] = v.clone();
    }
}

/// The structural history family shared by C16 and C19: value-file structure (splits, merges,
/// overflow chains, free lists) and merkle-page structure (elision threshold, tombstones).
fn structural_family(thorough: bool, buckets: &[u32]) -> Vec<Value> {
    let mut cases = vec![];
    for &bk in buckets {
        let mut cfg = cfg_small();
        cfg.buckets = bk;
        let a_small = acts(&[("w", Some(1)), ("w", Some(1333)), ("d", None), ("w", Some(70000)), ("w", Some(1300))]);
        cases.extend(enum_commit_histories(if thorough { 3 } else { 2 }, 4, if thorough { 3 } else { 2 }, &a_small, &mk_case("empty", vec!["U4"], &cfg, "noproof", false)));
        let a_seed = acts(&[("w", Some(1300)), ("w", Some(1)), ("d", None), ("w", Some(70000))]);
        cases.extend(enum_commit_histories(2, 6, 2, &a_seed, &mk_case("leaf", vec!["seed:0,2,3,5", "CL0:0-2"], &cfg, "noproof", false)));
        let a = acts(&[("w", Some(1)), ("d", None)]);
        for p in [12usize, 18] {
            for n in [19u32, 20, 21] {
                let seed = format!("cl{p}x{n}");
                let uni = format!("CL{p}:{}-{}", n - 2, n + 2);
                cases.extend(enum_commit_histories(2, 4, if thorough { 3 } else { 2 }, &a, &mk_case(&seed, vec![&uni], &cfg, "noproof", false)));
            }
        }
        if bk >= 1024 {
            let a_br = acts(&[("w", Some(1300)), ("d", None), ("w", Some(1))]);
            cases.extend(enum_commit_histories(2, 6, 2, &a_br, &mk_case("branch", vec!["seed:0,1,299,300,598,599"], &cfg, "noproof", false)));
            cases.extend(enum_commit_histories(2, 4, 2, &a_br, &mk_case("bulk", vec!["seed:0,700,1499", "CL0:0-1"], &cfg, "noproof", false)));
            let a_ovf = acts(&[("w", Some(1)), ("d", None), ("w", Some(70000))]);
            cases.extend(enum_commit_histories(2, 2, 2, &a_ovf, &mk_case("ovf", vec!["seed:0", "CL0:0-1"], &cfg, "noproof", false)));
        }
    }
    cases
}

fn plan_c16(thorough: bool) -> Plan {
    let mut cases = structural_family(thorough, if thorough { &[64, 256, 4096] } else { &[64, 4096] });
    set_all(&mut cases, "image", json!("c16"));
    sort_by_bound(&mut cases);
    let mut p = Plan::new(
        cases,
        "histx + imgdec: every history of ≤D commits with ≤B key actions over structural seed states (empty, leaf, branch, bulk, ovf, clusters of 19..21 keys below a depth-2 and a depth-3 merkle page) with hash tables of 64/256/4096 buckets; at every quiescent point (after open and after every commit) the directory is decoded by an independent decoder written from the documented formats: every key in exactly one leaf, strict order within/across leaves, keys bounded by separators, bbn labels, overflow chains complete with matching value hash and disjoint pages, used ∩ free = ∅, no page used twice, decoded key-value map = model; every full bucket found exactly once through its own probe sequence, every node reachable in every stored page = the reference trie's node at that position, needed pages either stored or marked elided (and then absent with all descendants), no unreachable stored page.",
    );
    p.budget_s = if thorough { 1500 } else { 45 };
    p.assumptions = vec!["the decoder implements the documented layouts (trusted, ~600 lines, shares no code with nomt)".into(), "crash-recovered images are covered by the C03 check, which applies the same decoder".into()];
    p
}

fn plan_c19(thorough: bool) -> Plan {
    let mut cases = structural_family(thorough, if thorough { &[64, 4096, 64000] } else { &[64, 4096] });
    set_all(&mut cases, "image", json!("c19"));
    sort_by_bound(&mut cases);
    let mut p = Plan::new(
        cases,
        "histx + imgdec: the structural history family of C16; at every quiescent point the decoder's page accounting must give [1, bump) = in-use ⊎ free-list-tracked in both value files (no leak, no double use), and hash_table_utilization().occupied = number of full buckets in the decoded meta map = number of stored pages reachable from the root (0 for an empty store).",
    );
    p.budget_s = if thorough { 1500 } else { 45 };
    p
}
