//! Engine interface, worker loop, coordinator, evidence and known-findings handling.

use serde_json::{json, Value};
use std::collections::{BTreeMap, BTreeSet};
use std::io::Write;
use std::path::{Path, PathBuf};
use std::process::{Command, Stdio};
use std::time::{Duration, Instant};

/// Result of executing one case.
#[derive(Default, Debug)]
pub struct Outcome {
    /// `Some` = the property is violated on this execution.
    pub violation: Option<Violation>,
    /// Further violations with other fingerprints found in the same case.
    pub more: Vec<Violation>,
    /// A digest of what was observed (distinct-outcome counting / vacuity).
    pub sig: u64,
    /// Whether the execution did something observable beyond a no-op (by the engine's rule).
    pub nontrivial: bool,
    /// Distinct abstract states visited by this execution (digests).
    pub states: Vec<u64>,
    /// Transitions (API calls / images opened / scheduler steps / verifier calls) executed.
    pub transitions: u64,
    /// Coverage goals reached.
    pub goals: Vec<&'static str>,
}

#[derive(Debug, Clone)]
pub struct Violation {
    pub msg: String,
    /// Structural fingerprint used to match `/verif/known_findings.json`.
    pub fingerprint: String,
}

impl Violation {
    pub fn new(fingerprint: impl Into<String>, msg: impl Into<String>) -> Self {
        Violation {
            msg: msg.into(),
            fingerprint: fingerprint.into(),
        }
    }
}

pub struct Plan {
    /// All cases of the tier, in deterministic order, lowest deviation bound first.
    pub cases: Vec<Value>,
    /// How the cases are generated and what counts as non-trivial/distinct.
    pub rule: String,
    pub level: &'static str,
    pub assumptions: Vec<String>,
    /// Wall-clock budget for the exploration (seconds); cases not reached are reported.
    pub budget_s: u64,
    /// Run every case in its own child process (hangs / aborts are verdicts or must be isolated).
    pub isolate: bool,
    /// Per-case timeout when isolated.
    pub case_timeout_s: u64,
    /// Whether a per-case timeout is a property violation (else a machinery failure).
    pub timeout_is_violation: bool,
}

impl Plan {
    pub fn new(cases: Vec<Value>, rule: impl Into<String>) -> Self {
        Plan {
            cases,
            rule: rule.into(),
            level: "model_checking",
            assumptions: vec![],
            budget_s: 40,
            isolate: false,
            case_timeout_s: 20,
            timeout_is_violation: false,
        }
    }
}

pub trait Engine {
    fn plan(&self, prop: &str, tier: &str) -> Plan;
    fn run(&mut self, prop: &str, case: &Value) -> Outcome;
}

pub fn fnv(data: &[u8]) -> u64 {
    let mut h: u64 = 0xcbf29ce484222325;
    for b in data {
        h ^= *b as u64;
        h = h.wrapping_mul(0x100000001b3);
    }
    h
}

pub fn fnv_str(s: &str) -> u64 {
    fnv(s.as_bytes())
}

fn panic_message(p: Box<dyn std::any::Any + Send>) -> String {
    if let Some(s) = p.downcast_ref::<&str>() {
        s.to_string()
    } else if let Some(s) = p.downcast_ref::<String>() {
        s.clone()
    } else {
        "<non-string panic>".to_string()
    }
}

/// Run one case with panics turned into violations.
pub fn run_guarded(engine: &mut dyn Engine, prop: &str, case: &Value) -> Outcome {
    // the hasher the whole case runs under (store, reference trie, proof checks, decoder)
    let hm = case.pointer("/cfg/hasher").or_else(|| case.pointer("/hist/cfg/hasher")).and_then(|v| v.as_u64()).unwrap_or(0);
    crate::driver::set_hasher_mode(hm as u8);
    let r = std::panic::catch_unwind(std::panic::AssertUnwindSafe(|| engine.run(prop, case)));
    match r {
        Ok(o) => o,
        Err(p) => {
            let m = panic_message(p);
            let loc = crate::panic_location_for(&m);
            Outcome {
                violation: Some(Violation::new(
                    format!("panic@{}", loc),
                    format!("panic during execution: {} at {}", m, loc),
                )),
                nontrivial: true,
                ..Default::default()
            }
        }
    }
}

// ---------------------------------------------------------------------------------------------
// Worker

pub fn worker_main(
    mut engine: Box<dyn Engine>,
    prop: &str,
    tier: &str,
    part: usize,
    nparts: usize,
    out: &Path,
) -> i32 {
    // The coordinator hands every worker its share of the plan as a file (a large plan is built
    // once, not once per worker process); without such a file the plan is computed here.
    let share_path = out.with_extension("cases.jsonl");
    let meta_path = out.with_file_name("plan.meta.json");
    let mut plan = match (std::fs::read_to_string(&share_path), std::fs::read(&meta_path).ok().and_then(|d| serde_json::from_slice::<Value>(&d).ok())) {
        (Ok(text), Some(meta)) => {
            let mut p = Plan::new(vec![], "");
            p.budget_s = meta["budget_s"].as_u64().unwrap_or(p.budget_s);
            p.isolate = meta["isolate"].as_bool().unwrap_or(false);
            p.case_timeout_s = meta["case_timeout_s"].as_u64().unwrap_or(p.case_timeout_s);
            p.timeout_is_violation = meta["timeout_is_violation"].as_bool().unwrap_or(false);
            p.cases = text.lines().filter(|l| !l.is_empty()).map(|l| serde_json::from_str(l).expect("case line")).collect();
            p
        }
        _ => {
            let mut p = engine.plan(prop, tier);
            let mine: Vec<Value> = p.cases.drain(..).enumerate().filter(|(i, _)| i % nparts == part).map(|(_, c)| c).collect();
            p.cases = mine;
            p
        }
    };
    let my_cases: Vec<Value> = std::mem::take(&mut plan.cases);
    let t0 = Instant::now();
    let deadline = t0 + Duration::from_secs(plan.budget_s);
    let mut evaluations = 0u64;
    let mut nontrivial_sigs: BTreeSet<u64> = BTreeSet::new();
    let mut sigs: BTreeSet<u64> = BTreeSet::new();
    let mut states: BTreeSet<u64> = BTreeSet::new();
    let mut transitions = 0u64;
    let mut goals: BTreeMap<String, u64> = BTreeMap::new();
    let mut violations: Vec<Value> = vec![];
    let mut samples: Vec<Value> = vec![];
    let mut completed_bound: Option<u64> = None;
    let mut cur_bound: Option<u64> = None;
    let mut skipped = 0u64;
    let mut timed_out = false;
    let mine: Vec<&Value> = my_cases.iter().collect();
    // Cases (positions in this part's list) that killed an earlier incarnation of this worker:
    // they are run in a child process, which turns "the process died" into a verdict.
    let isolate_positions: BTreeSet<usize> = std::env::var("MC_ISOLATE_POSITIONS")
        .ok()
        .map(|s| s.split(',').filter_map(|x| x.parse().ok()).collect())
        .unwrap_or_default();
    let cur_path = out.with_extension("cur");
    // Watchdog for engines that run their cases in-process: a case that does not come back
    // within the limit ends this worker (exit 3); the coordinator restarts the part with that
    // case isolated, where the hang is a verdict about the case.
    let case_started = std::sync::Arc::new(std::sync::atomic::AtomicU64::new(0));
    // (a case that carries its own exploration budget — the scheduler harnesses — may run that
    // long; the watchdog then allows budget + 120 s)
    let case_extra_ms = std::sync::Arc::new(std::sync::atomic::AtomicU64::new(0));
    if !plan.isolate {
        let cs = case_started.clone();
        let ce = case_extra_ms.clone();
        let limit_ms: u64 = std::env::var("MC_CASE_LIMIT_S").ok().and_then(|s| s.parse().ok()).unwrap_or(90) * 1000;
        let t0w = t0;
        std::thread::spawn(move || loop {
            std::thread::sleep(Duration::from_millis(500));
            let st = cs.load(std::sync::atomic::Ordering::SeqCst);
            let lim = limit_ms.max(ce.load(std::sync::atomic::Ordering::SeqCst));
            if st != 0 && (t0w.elapsed().as_millis() as u64).saturating_sub(st) > lim {
                eprintln!("WATCHDOG: the current case has been running for more than {} s", lim / 1000);
                std::process::exit(3);
            }
        });
    }
    let start_pos: usize = std::env::var("MC_START_POS").ok().and_then(|s| s.parse().ok()).unwrap_or(0);
    let ck_path = out.with_extension("ck");
    let mut last_ck = Instant::now();
    for (pos, case) in mine.iter().enumerate() {
        if pos < start_pos {
            continue;
        }
        if last_ck.elapsed() > Duration::from_secs(2) {
            // everything before `pos` is accounted for in this checkpoint
            let res = json!({
                "part": part, "evaluations": evaluations, "total_cases_in_part": mine.len(),
                "skipped": skipped, "timed_out": timed_out, "next_pos": pos,
                "sigs": sigs.iter().collect::<Vec<_>>(),
                "nontrivial": nontrivial_sigs.iter().collect::<Vec<_>>(),
                "states": states.iter().collect::<Vec<_>>(),
                "transitions": transitions, "goals": goals, "violations": violations, "samples": samples,
                "completed_bound": completed_bound, "wall_s": t0.elapsed().as_secs_f64(),
            });
            let tmp = out.with_extension("ck.tmp");
            if std::fs::write(&tmp, serde_json::to_vec(&res).unwrap()).is_ok() {
                let _ = std::fs::rename(&tmp, &ck_path);
            }
            last_ck = Instant::now();
        }
        let _ = std::fs::write(&cur_path, pos.to_string());
        let own_budget_s = case.get("budget_s").and_then(|x| x.as_u64()).unwrap_or(0);
        case_extra_ms.store(if own_budget_s > 0 { (own_budget_s + 120) * 1000 } else { 0 }, std::sync::atomic::Ordering::SeqCst);
        case_started.store((t0.elapsed().as_millis() as u64).max(1), std::sync::atomic::Ordering::SeqCst);
        let b = case.get("bound").and_then(|x| x.as_u64()).unwrap_or(0);
        if cur_bound != Some(b) {
            if let Some(cb) = cur_bound {
                if !timed_out {
                    completed_bound = Some(cb);
                }
            }
            cur_bound = Some(b);
        }
        if Instant::now() > deadline {
            timed_out = true;
            skipped += 1;
            continue;
        }
        let o = if plan.isolate {
            run_isolated(prop, case, plan.case_timeout_s, plan.timeout_is_violation)
        } else if isolate_positions.contains(&pos) || isolate_positions.len() >= 3 {
            // (after three deaths in this part every remaining case gets a process of its own)
            // the watchdog of the isolated child is this timeout; the parent's is suspended
            case_started.store(0, std::sync::atomic::Ordering::SeqCst);
            run_isolated(prop, case, if own_budget_s > 0 { own_budget_s + 120 } else { 60 }, true)
        } else {
            run_guarded(engine.as_mut(), prop, case)
        };
        evaluations += 1;
        sigs.insert(o.sig);
        if o.nontrivial {
            nontrivial_sigs.insert(o.sig ^ fnv_str(&case.to_string()));
        }
        for s in o.states {
            states.insert(s);
        }
        transitions += o.transitions;
        for g in o.goals {
            *goals.entry(g.to_string()).or_insert(0) += 1;
        }
        if samples.len() < 2 && (o.nontrivial || evaluations > 50) {
            samples.push((*case).clone());
        }
        for v in o.violation.into_iter().chain(o.more.into_iter()) {
            if violations.len() < 200 {
                violations.push(json!({"case": case, "msg": v.msg, "fingerprint": v.fingerprint}));
            }
        }
    }
    if !timed_out {
        if let Some(cb) = cur_bound {
            completed_bound = Some(cb);
        }
    }
    let res = json!({
        "part": part, "evaluations": evaluations, "total_cases_in_part": mine.len(),
        "skipped": skipped, "timed_out": timed_out,
        "sigs": sigs.iter().collect::<Vec<_>>(),
        "nontrivial": nontrivial_sigs.iter().collect::<Vec<_>>(),
        "states": states.iter().collect::<Vec<_>>(),
        "transitions": transitions, "goals": goals, "violations": violations, "samples": samples,
        "completed_bound": completed_bound, "wall_s": t0.elapsed().as_secs_f64(),
    });
    std::fs::write(out, serde_json::to_vec(&res).unwrap()).unwrap();
    0
}

/// Execute one case in a child process (`mc case <prop>` reading the case on stdin). The child
/// prints one JSON line describing the outcome.
pub fn run_isolated(prop: &str, case: &Value, timeout_s: u64, timeout_is_violation: bool) -> Outcome {
    // A timed-out child reports how far it got ({"progress": "<step>|<fingerprint>|<what>"});
    // the case is then resumed after that step, so that one hang does not hide the rest.
    let mut case = case.clone();
    let mut acc: Vec<Violation> = vec![];
    let mut rounds = 0;
    loop {
        let mut o = run_isolated_once(prop, &case, timeout_s, timeout_is_violation);
        // A time-out is a verdict about the case only if it is not a verdict about the machine: a
        // case that ran out of time is run once more, alone in its process as before, with four
        // times the limit (at least 120 s). Only if that run does not come back either is the
        // hang reported; otherwise the slow run's own outcome counts.
        // (once a hang of this case has been confirmed, later rounds — which resume behind the
        // hanging step — are not confirmed again)
        if timeout_is_violation && acc.is_empty() && o.violation.as_ref().map_or(false, |v| v.fingerprint.starts_with("hang:")) {
            let o2 = run_isolated_once(prop, &case, (timeout_s * 4).max(120), timeout_is_violation);
            let still = o2.violation.as_ref().map_or(false, |v| v.fingerprint.starts_with("hang:"));
            o = o2;
            if !still {
                o.goals.push("time-out-not-confirmed-by-a-run-with-4x-the-limit");
            }
        }
        rounds += 1;
        let resume = o
            .violation
            .as_ref()
            .filter(|v| v.fingerprint.starts_with("hang:"))
            .and_then(|v| v.msg.rsplit("[resume-after ").next().and_then(|s| s.trim_end_matches(']').parse::<u64>().ok()));
        match resume {
            Some(k) if rounds < 5 => {
                // one hang of the "short write reported every time" kind is enough for a case:
                // every further one would cost another time-out
                if o.violation.as_ref().map_or(false, |v| v.msg.contains("reported every time")) {
                    case["cqe_persistent"] = serde_json::json!(false);
                }
                acc.push(o.violation.take().unwrap());
                acc.extend(o.more.drain(..));
                case["skip"] = serde_json::json!(k + 1);
            }
            _ => {
                let mut all: Vec<Violation> = acc;
                all.extend(o.violation.take());
                all.extend(o.more.drain(..));
                // dedupe by fingerprint
                let mut seen = std::collections::BTreeSet::new();
                all.retain(|v| seen.insert(v.fingerprint.clone()));
                let mut it = all.into_iter();
                o.violation = it.next();
                o.more = it.collect();
                return o;
            }
        }
    }
}

fn run_isolated_once(prop: &str, case: &Value, timeout_s: u64, timeout_is_violation: bool) -> Outcome {
    let exe = std::env::current_exe().unwrap();
    let errpath = std::env::temp_dir().join(format!("mc-case-{}-{:?}.err", std::process::id(), std::thread::current().id()));
    let errfile = std::fs::File::create(&errpath).ok();
    let mut child = Command::new(exe)
        .arg("case")
        .arg(prop)
        .env("MC_VERBOSE", "1")
        .stdin(Stdio::piped())
        .stdout(Stdio::piped())
        .stderr(errfile.map(Stdio::from).unwrap_or_else(Stdio::null))
        .spawn()
        .expect("spawn case child");
    child
        .stdin
        .take()
        .unwrap()
        .write_all(case.to_string().as_bytes())
        .unwrap();
    let t0 = Instant::now();
    loop {
        match child.try_wait().unwrap() {
            Some(status) => {
                let mut out = String::new();
                use std::io::Read;
                child.stdout.take().unwrap().read_to_string(&mut out).ok();
                if let Some(line) = out.lines().rev().find(|l| l.starts_with("{\"outcome\"")) {
                    if let Ok(v) = serde_json::from_str::<Value>(line) {
                        return outcome_from_json(&v["outcome"]);
                    }
                }
                // No outcome line: the child died (abort / signal).
                let err = std::fs::read_to_string(&errpath).unwrap_or_default();
                let _ = std::fs::remove_file(&errpath);
                let lines: Vec<&str> = err.lines().collect();
                let mut panics: Vec<String> = vec![];
                for (i, l) in lines.iter().enumerate() {
                    if let Some(rest) = l.strip_prefix("panic: panicked at ") {
                        let loc = rest.trim_end_matches(':');
                        if loc.starts_with("/rustc/") {
                            continue;
                        }
                        panics.push(format!("{} ({})", lines.get(i + 1).copied().unwrap_or(""), loc.rsplit("/repo/").next().unwrap_or(loc)));
                    }
                }
                let first_loc = panics.first().and_then(|p| p.rsplit('(').next()).map(|s| s.trim_end_matches(')').rsplitn(2, ':').last().unwrap_or("").to_string()).unwrap_or_default();
                return Outcome {
                    violation: Some(Violation::new(
                        format!("abort@{first_loc}"),
                        format!("the process died during this history ({status:?}); panics before it died: {}", if panics.is_empty() { "none recorded".to_string() } else { panics.join(" | ") }),
                    )),
                    nontrivial: true,
                    ..Default::default()
                };
            }
            None => {
                if t0.elapsed() > Duration::from_secs(timeout_s) {
                    let _ = child.kill();
                    let _ = child.wait();
                    if timeout_is_violation {
                        // the child prints {"progress": "<fingerprint>|<what>"} before each step
                        let mut out = String::new();
                        use std::io::Read;
                        child.stdout.take().unwrap().read_to_string(&mut out).ok();
                        let last = out
                            .lines()
                            .rev()
                            .find(|l| l.starts_with("{\"progress\""))
                            .and_then(|l| serde_json::from_str::<Value>(l).ok())
                            .and_then(|v| v["progress"].as_str().map(|s| s.to_string()))
                            .unwrap_or_default();
                        let mut parts = last.splitn(3, '|');
                        let step = parts.next().unwrap_or("");
                        let fp = parts.next().unwrap_or("");
                        let what = parts.next().unwrap_or("");
                        let resume = if step.parse::<u64>().is_ok() { format!(" [resume-after {step}]") } else { String::new() };
                        return Outcome {
                            violation: Some(Violation::new(
                                format!("hang:{fp}"),
                                format!("no verdict within {timeout_s}s (hang) while: {what}{resume}"),
                            )),
                            nontrivial: true,
                            ..Default::default()
                        };
                    } else {
                        eprintln!("MACHINERY: case timed out: {}", case);
                        std::process::exit(2);
                    }
                }
                std::thread::sleep(Duration::from_millis(2));
            }
        }
    }
}

pub fn outcome_to_json(o: &Outcome) -> Value {
    json!({
        "violation": o.violation.as_ref().map(|v| json!({"msg": v.msg, "fingerprint": v.fingerprint})),
        "more": o.more.iter().map(|v| json!({"msg": v.msg, "fingerprint": v.fingerprint})).collect::<Vec<_>>(),
        "sig": o.sig, "nontrivial": o.nontrivial, "states": o.states, "transitions": o.transitions,
        "goals": o.goals,
    })
}

fn leak(s: &str) -> &'static str {
    Box::leak(s.to_string().into_boxed_str())
}

pub fn outcome_from_json(v: &Value) -> Outcome {
    Outcome {
        violation: v.get("violation").and_then(|x| {
            if x.is_null() {
                None
            } else {
                Some(Violation {
                    msg: x["msg"].as_str().unwrap_or("").to_string(),
                    fingerprint: x["fingerprint"].as_str().unwrap_or("").to_string(),
                })
            }
        }),
        more: v["more"]
            .as_array()
            .map(|a| {
                a.iter()
                    .map(|x| Violation {
                        msg: x["msg"].as_str().unwrap_or("").to_string(),
                        fingerprint: x["fingerprint"].as_str().unwrap_or("").to_string(),
                    })
                    .collect()
            })
            .unwrap_or_default(),
        sig: v["sig"].as_u64().unwrap_or(0),
        nontrivial: v["nontrivial"].as_bool().unwrap_or(false),
        states: v["states"]
            .as_array()
            .map(|a| a.iter().filter_map(|x| x.as_u64()).collect())
            .unwrap_or_default(),
        transitions: v["transitions"].as_u64().unwrap_or(0),
        goals: v["goals"]
            .as_array()
            .map(|a| a.iter().filter_map(|x| x.as_str()).map(leak).collect())
            .unwrap_or_default(),
    }
}

// ---------------------------------------------------------------------------------------------
// Coordinator

pub struct KnownFinding {
    pub property: String,
    pub fingerprint: String,
    pub what: String,
}

pub fn load_known_findings(verif_dir: &Path) -> Vec<KnownFinding> {
    let p = verif_dir.join("known_findings.json");
    let Ok(data) = std::fs::read(&p) else { return vec![] };
    let v: Value = serde_json::from_slice(&data).expect("known_findings.json is not valid JSON");
    v["findings"]
        .as_array()
        .map(|a| {
            a.iter()
                .map(|f| KnownFinding {
                    property: f["property"].as_str().unwrap_or("").to_string(),
                    fingerprint: f["fingerprint"].as_str().unwrap_or("").to_string(),
                    what: f["what"].as_str().unwrap_or("").to_string(),
                })
                .collect()
        })
        .unwrap_or_default()
}

pub fn verif_dir() -> PathBuf {
    std::env::var("VERIF_DIR")
        .map(PathBuf::from)
        .unwrap_or_else(|_| PathBuf::from("/verif"))
}

/// Remove scratch directories left behind by killed processes.
pub fn clean_stale_scratch() {
    let Ok(rd) = std::fs::read_dir("/dev/shm") else { return };
    for e in rd.flatten() {
        let name = e.file_name().to_string_lossy().into_owned();
        if let Some(rest) = name.strip_prefix("nomt-mc.") {
            if let Some(pid) = rest.rsplit('.').next().and_then(|p| p.parse::<u32>().ok()) {
                if !Path::new(&format!("/proc/{pid}")).exists() {
                    let _ = std::fs::remove_dir_all(e.path());
                }
            }
        }
    }
}

pub fn check_main(make: &dyn Fn(&str) -> Option<Box<dyn Engine>>, prop: &str, tier: &str) -> i32 {
    let t0 = Instant::now();
    let vdir = verif_dir();
    clean_stale_scratch();
    let Some(engine) = make(prop) else {
        eprintln!("MACHINERY: no engine for property {prop}");
        return 2;
    };
    let mut plan = engine.plan(prop, tier);
    drop(engine);
    let total = plan.cases.len();
    let max_bound = plan.cases.iter().map(|c| c["bound"].as_u64().unwrap_or(0)).max().unwrap_or(0);
    if total == 0 {
        eprintln!("MACHINERY: empty plan for {prop}/{tier}");
        return 2;
    }
    let nparts: usize = std::env::var("VERIF_JOBS")
        .ok()
        .and_then(|s| s.parse().ok())
        .unwrap_or_else(|| {
            std::thread::available_parallelism()
                .map(|n| n.get())
                .unwrap_or(8)
        })
        .min(total)
        .max(1);
    let outdir = vdir.join("out").join(format!("{prop}.{tier}"));
    let _ = std::fs::remove_dir_all(&outdir);
    std::fs::create_dir_all(&outdir).unwrap();
    {
        use std::io::Write as _;
        let meta = json!({"budget_s": plan.budget_s, "isolate": plan.isolate, "case_timeout_s": plan.case_timeout_s, "timeout_is_violation": plan.timeout_is_violation});
        std::fs::write(outdir.join("plan.meta.json"), serde_json::to_vec(&meta).unwrap()).unwrap();
        let mut files: Vec<std::io::BufWriter<std::fs::File>> = (0..nparts)
            .map(|part| std::io::BufWriter::new(std::fs::File::create(outdir.join(format!("part{part}.cases.jsonl"))).unwrap()))
            .collect();
        for (i, c) in plan.cases.iter().enumerate() {
            writeln!(files[i % nparts], "{}", c).unwrap();
        }
        for f in files.iter_mut() {
            f.flush().unwrap();
        }
        // the workers have their shares: free the plan
        plan.cases = Vec::new();
    }
    let exe = std::env::current_exe().unwrap();
    let spawn_worker = |part: usize, isolate: &BTreeSet<usize>, start_pos: usize| {
        let out = outdir.join(format!("part{part}.json"));
        let _ = std::fs::remove_file(out.with_extension("ck"));
        let log = std::fs::File::create(outdir.join(format!("part{part}.log"))).unwrap();
        let child = Command::new(&exe)
            .args(["worker", prop, tier, &part.to_string(), &nparts.to_string()])
            .arg(&out)
            .env("MC_ISOLATE_POSITIONS", isolate.iter().map(|x| x.to_string()).collect::<Vec<_>>().join(","))
            .env("MC_START_POS", start_pos.to_string())
            .stdout(Stdio::null())
            .stderr(log)
            .spawn()
            .expect("spawn worker");
        (child, out)
    };
    let mut children = vec![];
    for part in 0..nparts {
        let (child, out) = spawn_worker(part, &BTreeSet::new(), 0);
        children.push((part, child, out));
    }
    // Watchdog: budget + generous grace.
    let hard = Duration::from_secs(plan.budget_s * 3 + 120);
    let mut results = vec![];
    let mut worker_restarts = 0u64;
    for (part, mut child, mut out) in children {
        let mut isolate: BTreeSet<usize> = BTreeSet::new();
        let mut extra = Duration::from_secs(0);
        let mut start_pos = 0usize;
        loop {
            match child.try_wait().unwrap() {
                Some(st) => {
                    if !st.success() {
                        // The process died (abort, signal) while running a case: restart this
                        // part with that case executed in a child of its own, where a dying
                        // process is a verdict about the case.
                        let cur = std::fs::read_to_string(out.with_extension("cur")).ok().and_then(|s| s.trim().parse::<usize>().ok());
                        if let Some(pos) = cur {
                            if st.code() != Some(2) && isolate.insert(pos) && isolate.len() <= 40 {
                                worker_restarts += 1;
                                // keep what the dead incarnation had checkpointed and go on from there
                                if let Some(ck) = std::fs::read(out.with_extension("ck")).ok().and_then(|d| serde_json::from_slice::<Value>(&d).ok()) {
                                    start_pos = ck["next_pos"].as_u64().unwrap_or(start_pos as u64) as usize;
                                    results.push(ck);
                                }
                                let (c, o) = spawn_worker(part, &isolate, start_pos);
                                child = c;
                                out = o;
                                extra = t0.elapsed();
                                continue;
                            }
                        }
                        let log = std::fs::read_to_string(outdir.join(format!("part{part}.log")))
                            .unwrap_or_default();
                        eprintln!(
                            "MACHINERY: worker {part} exited with {st:?}; last log lines:\n{}",
                            log.lines().rev().take(15).collect::<Vec<_>>().into_iter().rev().collect::<Vec<_>>().join("\n")
                        );
                        return 2;
                    }
                    break;
                }
                None => {
                    if t0.elapsed() > hard + extra {
                        let _ = child.kill();
                        eprintln!("MACHINERY: worker {part} exceeded the hard time limit");
                        return 2;
                    }
                    std::thread::sleep(Duration::from_millis(20));
                }
            }
        }
        let v: Value = match std::fs::read(&out).ok().and_then(|d| serde_json::from_slice(&d).ok()) {
            Some(v) => v,
            None => {
                eprintln!("MACHINERY: worker {part} wrote no result");
                return 2;
            }
        };
        results.push(v);
    }
    // Merge.
    let mut evaluations = 0u64;
    let mut skipped = 0u64;
    let mut transitions = 0u64;
    let mut sigs = BTreeSet::new();
    let mut nontrivial = BTreeSet::new();
    let mut states = BTreeSet::new();
    let mut goals: BTreeMap<String, u64> = BTreeMap::new();
    let mut violations: Vec<Value> = vec![];
    let mut samples: Vec<Value> = vec![];
    let mut completed_bound: Option<u64> = None;
    let mut any_timeout = false;
    let mut partial_bounds: Vec<Option<u64>> = vec![];
    for r in &results {
        evaluations += r["evaluations"].as_u64().unwrap_or(0);
        skipped += r["skipped"].as_u64().unwrap_or(0);
        transitions += r["transitions"].as_u64().unwrap_or(0);
        any_timeout |= r["timed_out"].as_bool().unwrap_or(false);
        for s in r["sigs"].as_array().unwrap() {
            sigs.insert(s.as_u64().unwrap());
        }
        for s in r["nontrivial"].as_array().unwrap() {
            nontrivial.insert(s.as_u64().unwrap());
        }
        for s in r["states"].as_array().unwrap() {
            states.insert(s.as_u64().unwrap());
        }
        for (g, c) in r["goals"].as_object().unwrap() {
            *goals.entry(g.clone()).or_insert(0) += c.as_u64().unwrap_or(0);
        }
        for v in r["violations"].as_array().unwrap() {
            violations.push(v.clone());
        }
        for s in r["samples"].as_array().unwrap() {
            if samples.len() < 4 {
                samples.push(s.clone());
            }
        }
        if r["timed_out"].as_bool().unwrap_or(false) {
            let cb = r["completed_bound"].as_u64();
            partial_bounds.push(cb);
        }
    }
    if partial_bounds.is_empty() {
        completed_bound = Some(max_bound);
    } else if partial_bounds.iter().all(|b| b.is_some()) {
        completed_bound = partial_bounds.iter().map(|b| b.unwrap()).min();
    } else {
        completed_bound = None;
    }
    // Violations: shortest first, confirm by replay, match known findings.
    violations.sort_by_key(|v| v["case"].to_string().len());
    let known = load_known_findings(&vdir);
    let cex_dir = vdir.join("out").join("counterexamples");
    std::fs::create_dir_all(&cex_dir).unwrap();
    let mut reported_known: BTreeSet<String> = BTreeSet::new();
    let mut new_violations = 0;
    let mut first_new: Option<PathBuf> = None;
    let mut seen_fp: BTreeSet<String> = BTreeSet::new();
    let mut unreproduced: Vec<Value> = vec![];
    for (i, v) in violations.iter().enumerate() {
        let fp = v["fingerprint"].as_str().unwrap_or("").to_string();
        if let Some(k) = known.iter().find(|k| k.property == prop && k.fingerprint == fp) {
            if reported_known.insert(fp.clone()) {
                println!("KNOWN-FINDING: property={prop} {} [{}]", k.what, fp);
            }
            continue;
        }
        if !seen_fp.insert(fp.clone()) && new_violations >= 3 {
            continue;
        }
        let path = cex_dir.join(format!("{prop}.{tier}.{i}.json"));
        let replay = json!({"property": prop, "case": v["case"], "msg": v["msg"], "fingerprint": fp});
        std::fs::write(&path, serde_json::to_vec_pretty(&replay).unwrap()).unwrap();
        // Confirm by replaying the stored case in a fresh process (up to three times: a failure
        // that depends on what a misbehaving store happens to read back may not fail every time).
        let mut confirmed = false;
        let mut last = String::new();
        for _ in 0..3 {
            let st = Command::new(&exe)
                .arg("replay")
                .arg(&path)
                .stdout(Stdio::null())
                .stderr(Stdio::null())
                .status();
            match st {
                Ok(s) if s.code() == Some(1) => {
                    confirmed = true;
                    break;
                }
                other => last = format!("{other:?}"),
            }
        }
        if confirmed {
            new_violations += 1;
            println!("VIOLATION property={prop} replay={}", path.display());
            println!("  {}", v["msg"].as_str().unwrap_or(""));
            if first_new.is_none() {
                first_new = Some(path);
            }
        } else {
            // Observed once, gone on three replays of the same case in a fresh process: not a
            // verdict about the property (the same case must fail every time to be one). It is
            // kept in the evidence and printed, and does not change the exit status.
            println!(
                "UNREPRODUCED: property={prop} observed once, not on 3 replays ({last}): {} — case kept in {}",
                v["msg"].as_str().unwrap_or(""),
                path.with_extension("unreproduced.json").display()
            );
            let _ = std::fs::rename(&path, path.with_extension("unreproduced.json"));
            unreproduced.push(json!({"msg": v["msg"], "case": v["case"]}));
        }
    }
    let distinct_nontrivial = nontrivial.len() as u64;
    let exhaustive = skipped == 0 && !any_timeout;
    let wall = t0.elapsed().as_secs_f64();
    let mut coverage = json!({
        "evaluations": evaluations,
        "distinct_nontrivial": distinct_nontrivial,
        "rule": plan.rule,
        "samples": samples,
        "states": states.len().max(1),
        "transitions": transitions.max(1),
        "traces_validated_against_impl": evaluations,
        "distinct_outcomes": sigs.len(),
        "cases_planned": total,
        "cases_not_reached_within_budget": skipped,
        "completed_bound": completed_bound,
        "goals_reached": goals,
        "exhaustive": exhaustive,
        "workers": nparts,
        "known_findings_reported": reported_known.iter().collect::<Vec<_>>(),
        "worker_restarts_after_process_death": worker_restarts,
        "unreproduced_observations": unreproduced,
        "explanation": "stateless exploration of the real implementation: every case is an execution of the real code; 'traces_validated_against_impl' therefore equals 'evaluations'",
    });
    if let Some(extra) = crate::extra_evidence(prop, tier) {
        for (k, v) in extra.as_object().unwrap() {
            if k == "__violation" {
                new_violations += 1;
                println!("VIOLATION property={prop} replay={}", v["replay"].as_str().unwrap_or(""));
                println!("  {}", v["msg"].as_str().unwrap_or(""));
                continue;
            }
            coverage[k] = v.clone();
        }
    }
    let seed: i64 = std::env::var("VERIF_SEED")
        .ok()
        .and_then(|s| s.parse().ok())
        .unwrap_or(0);
    let ev = json!({
        "property_id": prop, "tier": tier, "seed": seed, "level": plan.level,
        "coverage": coverage, "assumptions": plan.assumptions, "wall_s": wall,
        "violations": new_violations,
    });
    let evdir = vdir.join("evidence");
    std::fs::create_dir_all(&evdir).unwrap();
    std::fs::write(
        evdir.join(format!("{prop}.json")),
        serde_json::to_vec_pretty(&ev).unwrap(),
    )
    .unwrap();
    println!(
        "{prop} [{tier}] cases={evaluations}/{total} distinct_outcomes={} nontrivial={} states={} transitions={} completed_bound={:?} exhaustive={} known={} violations={} wall={:.1}s",
        sigs.len(), distinct_nontrivial, states.len(), transitions, completed_bound, exhaustive,
        reported_known.len(), new_violations, wall
    );
    if new_violations > 0 {
        1
    } else {
        0
    }
}
