//! The reference model: a `BTreeMap` for values and an independent, deliberately naive
//! implementation of the binary Merkle-Patricia trie of `docs/nomt_specification.md`
//! (terminator for the empty sub-trie, a leaf for a single pair, otherwise an internal node over
//! the two sub-tries split on the next key bit). Only the *hash functions* are taken from the
//! store's hasher; no trie logic of `nomt`/`nomt-core` is used here.

use crate::util::{bit, Key};
use nomt_core::hasher::{NodeHasher, ValueHasher};
use nomt_core::trie::{InternalData, LeafData, Node, TERMINATOR};
use std::collections::BTreeMap;

pub type Kv = BTreeMap<Key, Vec<u8>>;
pub type Leaves = Vec<(Key, [u8; 32])>;

pub fn leaves<H: ValueHasher>(kv: &Kv) -> Leaves {
    kv.iter().map(|(k, v)| (*k, H::hash_value(v))).collect()
}

/// Node of the sub-trie holding exactly `set` (sorted), whose position is at `depth`.
pub fn subtrie<H: NodeHasher>(set: &[(Key, [u8; 32])], depth: usize) -> Node {
    match set.len() {
        0 => TERMINATOR,
        1 => H::hash_leaf(&LeafData {
            key_path: set[0].0,
            value_hash: set[0].1,
        }),
        _ => {
            let split = set.partition_point(|(k, _)| !bit(k, depth));
            let left = subtrie::<H>(&set[..split], depth + 1);
            let right = subtrie::<H>(&set[split..], depth + 1);
            H::hash_internal(&InternalData { left, right })
        }
    }
}

pub fn root_of_leaves<H: NodeHasher>(set: &[(Key, [u8; 32])]) -> Node {
    subtrie::<H>(set, 0)
}

pub fn root<H: NodeHasher + ValueHasher>(kv: &Kv) -> Node {
    root_of_leaves::<H>(&leaves::<H>(kv))
}

/// The slice of `set` below the position given by the first `depth` bits of `path`.
pub fn below<'a>(set: &'a [(Key, [u8; 32])], path: &Key, depth: usize) -> &'a [(Key, [u8; 32])] {
    let mut s = set;
    for d in 0..depth {
        let split = s.partition_point(|(k, _)| !bit(k, d));
        s = if bit(path, d) { &s[split..] } else { &s[..split] };
    }
    s
}

/// The node at the position given by the first `depth` bits of `path` — only meaningful if that
/// position exists in the trie (its parent is internal) or is the root.
pub fn node_at<H: NodeHasher>(set: &[(Key, [u8; 32])], path: &Key, depth: usize) -> Node {
    subtrie::<H>(below(set, path, depth), depth)
}

/// The honest path proof for `key`: siblings from the root downwards and the terminal
/// (`Some(leaf)` or `None` for a terminator) together with the terminal's depth.
pub struct RefProof {
    pub siblings: Vec<Node>,
    pub terminal: Option<(Key, [u8; 32])>,
    pub depth: usize,
}

pub fn path_proof<H: NodeHasher>(set: &[(Key, [u8; 32])], key: &Key) -> RefProof {
    let mut s = set;
    let mut siblings = vec![];
    let mut depth = 0;
    while s.len() >= 2 {
        let split = s.partition_point(|(k, _)| !bit(k, depth));
        let (l, r) = (&s[..split], &s[split..]);
        if bit(key, depth) {
            siblings.push(subtrie::<H>(l, depth + 1));
            s = r;
        } else {
            siblings.push(subtrie::<H>(r, depth + 1));
            s = l;
        }
        depth += 1;
    }
    RefProof {
        siblings,
        terminal: s.first().cloned(),
        depth,
    }
}

/// Sequential model of the store's abstract state.
#[derive(Clone, Debug)]
pub struct Model {
    pub kv: Kv,
    /// States before each commit, oldest first (unbounded: the model remembers all).
    pub stack: Vec<Kv>,
    /// How many of those the store is *required* to be able to roll back (ring length).
    pub retained: usize,
    pub seqn: u32,
    pub rollback_enabled: bool,
    pub log_len: usize,
}

impl Model {
    pub fn new(rollback_enabled: bool, log_len: usize) -> Self {
        Model {
            kv: Kv::new(),
            stack: vec![],
            retained: 0,
            seqn: 0,
            rollback_enabled,
            log_len,
        }
    }

    pub fn apply(kv: &mut Kv, writes: &[(Key, Option<Vec<u8>>)]) {
        for (k, v) in writes {
            match v {
                Some(v) => {
                    kv.insert(*k, v.clone());
                }
                None => {
                    kv.remove(k);
                }
            }
        }
    }

    /// A successful commit of `writes`.
    pub fn commit(&mut self, writes: &[(Key, Option<Vec<u8>>)]) {
        if self.rollback_enabled {
            self.stack.push(self.kv.clone());
            self.retained = (self.retained + 1).min(self.log_len);
        }
        Self::apply(&mut self.kv, writes);
        self.seqn += 1;
    }

    /// Whether the store must be able to serve `rollback(n)`.
    pub fn must_serve(&self, n: usize) -> bool {
        self.rollback_enabled && n <= self.retained
    }

    /// Whether the model has the history to say what `rollback(n)` yields.
    pub fn can_serve(&self, n: usize) -> bool {
        self.rollback_enabled && n <= self.stack.len()
    }

    /// A successful rollback of `n` commits (n ≥ 1).
    pub fn rollback(&mut self, n: usize) {
        let idx = self.stack.len() - n;
        self.kv = self.stack[idx].clone();
        self.stack.truncate(idx);
        self.retained = self.retained.saturating_sub(n);
        self.seqn += 1;
    }
}
