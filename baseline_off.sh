#!/bin/bash
# Runs the repository's pinned test suite with the `verif` feature OFF (the default).
# The suite preallocates ~26 GB of test databases under nomt/test on a disk file system; pointing
# that (git-ignored) directory at tmpfs makes the store skip preallocation.
set -u
ROOT=/repo/$(cat /w/out/cargo_root.txt 2>/dev/null || echo .)
cd "$ROOT" || exit 2
if [ -d /dev/shm ] && [ ! -e nomt/test ]; then
  mkdir -p /dev/shm/repo-nomt-test && ln -sfn /dev/shm/repo-nomt-test nomt/test
fi
export CARGO_NET_OFFLINE=true
if cargo nextest --version >/dev/null 2>&1 && [ -f /w/lib/nextest.toml ]; then
  cargo nextest run --workspace --no-fail-fast --tool-config-file pb:/w/lib/nextest.toml --profile pb --test-threads 8 --offline
else
  cargo test --workspace --no-fail-fast --offline
fi
